"""C47 — the WSGI container presents requests and responses faithfully (tornado/wsgi.py).  DESIGN §6.8 C47.

P (finite case analysis on the real WSGIContainer.environ): a request object with every Host form the HTTP server
accepts (reg-name, IPv4, bracketed IPv6; without port, with port, with leading-zero port, with an EMPTY port) x scheme x
content headers present or not x other headers: building the environ never raises; SERVER_NAME is the host without
the port (brackets kept, RFC 3875) and SERVER_PORT the port in decimal, or the scheme's default when the Host carries
none; REQUEST_METHOD / PATH_INFO (percent-decoded) / QUERY_STRING / REMOTE_ADDR / SERVER_PROTOCOL / wsgi.url_scheme /
wsgi.input are the request's; Content-Type and Content-Length become CONTENT_TYPE / CONTENT_LENGTH and are not repeated
as HTTP_*; every other header h becomes HTTP_<H with - as _>.
B: real HTTPServer + WSGIContainer on the scripted transport: requests from a grammar (methods, paths with escapes,
queries, Host forms, bodies, headers) -> the environ seen by the application; responses from a grammar (statuses incl.
304, header sets with and without Content-Length / Content-Type / Server, bodies as several chunks, write() callable,
an iterable with close()) -> the bytes on the wire parsed back: status, headers and body unchanged apart from the three
defaults.
"""
import io
import types

from pyvc.unit import unit
from pyvc import core

LEVEL = "other"
STANDIN_ALWAYS_THOROUGH = True      # its large bound takes seconds: used at both tiers
EXPLANATION = ("MIXED. WSGIContainer.environ decided by exhaustive case analysis on the real method over 14 Host forms x scheme x content-header presence x extra "
               "headers: never raises; SERVER_NAME / SERVER_PORT are the Host's name and port (scheme default without one, also for an empty port), the request "
               "fields map to their CGI keys, content headers are moved to CONTENT_TYPE / CONTENT_LENGTH, other headers become HTTP_* keys. Request and response "
               "pass-through (status, headers, body unchanged apart from default Content-Length / Content-Type / Server) through the real HTTPServer + "
               "WSGIContainer in the stand-in. Found and fixed F-23.")
TRUSTED = ["HTTPServerRequest accepts only RFC host syntax (C01)", "escape.url_unescape (C21)", "HTTPHeaders (C06)"]
ASSUMPTIONS = ["Host forms are drawn from a representative list (the function only separates name and port)", "the WSGI application follows PEP 3333 (calls start_response once, yields bytes)"]
M = "tornado.wsgi"

HOSTS = [("example.com", "example.com", None), ("example.com:8080", "example.com", "8080"), ("example.com:", "example.com", None), ("example.com:0080", "example.com", "80"),
         ("1.2.3.4", "1.2.3.4", None), ("1.2.3.4:81", "1.2.3.4", "81"), ("[::1]", "[::1]", None), ("[::1]:8080", "[::1]", "8080"), ("[::1]:", "[::1]", None),
         ("[2001:db8::7]:443", "[2001:db8::7]", "443"), ("localhost:65535", "localhost", "65535"), ("a-b.c_d~e:1", "a-b.c_d~e", "1"), ("xn--bcher-kva.example:8", "xn--bcher-kva.example", "8"),
         ("h:0", "h", "0")]


def mk_request(host, proto, headers, body=b"payload", path="/a%20b+c/c%2Fd", query="x=1&y=%20", method="POST"):
    from tornado import httputil
    h = httputil.HTTPHeaders()
    h.add("Host", host)
    for k, v in headers:
        h.add(k, v)
    r = httputil.HTTPServerRequest.__new__(httputil.HTTPServerRequest)
    r.method, r.uri, r.version = method, path + ("?" + query if query else ""), "HTTP/1.1"
    r.path, r.query = path, query
    r.headers, r.body = h, body
    r.remote_ip, r.protocol = "9.8.7.6", proto
    r.host = host
    r.host_name = host
    r.connection = None
    return r


@unit("C47", "WSGIContainer.environ", [(M, "WSGIContainer.environ")])
def u_environ(c):
    import tornado.wsgi as TW
    host, name, port = c.choose("host", HOSTS)
    proto = c.choose("scheme", ["http", "https"])
    has_ct = c.choose("Content-Type", [True, False])
    has_cl = c.choose("Content-Length", [True, False])
    extra = c.choose("other-headers", [(), (("X-Forwarded-For", "1.1.1.1"),), (("Accept", "a/b"), ("Accept", "c/d"), ("x-lower-case", "v"))])
    headers = list(extra)
    if has_ct:
        headers.append(("Content-Type", "text/x; charset=y"))
    if has_cl:
        headers.append(("Content-Length", "7"))
    req = mk_request(host, proto, headers)
    cont = TW.WSGIContainer.__new__(TW.WSGIContainer)
    cont.executor = TW.dummy_executor
    cont.wsgi_application = None
    out = c.call(c.fn(M, "WSGIContainer.environ"), cont, req)
    c.only_raises(out, ())
    if out.raised:
        return
    e = out.value
    c.cover("environ")
    c.oblige("post/server-name-is-the-host-without-the-port", e.get("SERVER_NAME") == name)
    c.oblige("post/server-port-is-the-host's-port-or-the-scheme-default", e.get("SERVER_PORT") == (port if port is not None else ("443" if proto == "https" else "80")))
    c.oblige("post/request-fields-map-to-their-cgi-keys",
             e.get("REQUEST_METHOD") == "POST" and e.get("SCRIPT_NAME") == "" and e.get("PATH_INFO") == "/a b+c/c/d" and e.get("QUERY_STRING") == "x=1&y=%20"
             and e.get("REMOTE_ADDR") == "9.8.7.6" and e.get("SERVER_PROTOCOL") == "HTTP/1.1" and e.get("wsgi.url_scheme") == proto
             and isinstance(e.get("wsgi.input"), io.BytesIO) and e["wsgi.input"].getvalue() == b"payload" and e.get("wsgi.version") == (1, 0))
    c.oblige("post/content-headers-become-CONTENT_-keys-only",
             (e.get("CONTENT_TYPE") == "text/x; charset=y") == has_ct and ("CONTENT_TYPE" in e) == has_ct and (e.get("CONTENT_LENGTH") == "7") == has_cl
             and ("CONTENT_LENGTH" in e) == has_cl and "HTTP_CONTENT_TYPE" not in e and "HTTP_CONTENT_LENGTH" not in e)
    want = {"HTTP_HOST": host}
    for k, v in extra:
        key = "HTTP_" + k.replace("-", "_").upper()
        want[key] = (want[key] + "," + v) if key in want else v
    got = {k: v for k, v in e.items() if k.startswith("HTTP_")}
    c.oblige("post/other-headers-become-HTTP_-keys", got == want)


# ---------------------------------------------------------------------------------- bounded stand-in
def standin(tier, seed):
    import itertools
    import random
    import time
    import tornado.wsgi as TW
    import tornado
    from pyvc.standin import httpserver as S
    t0 = time.time()
    rng = random.Random(seed)
    evals, nontriv, failures, samples = 0, set(), [], []

    def fail(what, **h):
        if len(failures) < 4:
            failures.append({"what": what, "history": h})

    async def more_ticks(v, stream, server, res):
        # the container hops through run_in_executor / add_future once per response chunk: give the loop room
        for _ in range(12):
            await v.tick(10)
            stream.pump()
    # ---- requests -> environ
    METHODS = ["GET", "POST", "PUT"]
    TARGETS = [("/", ""), ("/a%20b", "q=1"), ("/%E2%82%AC/x", "a=%26&b"), ("/a/b%2Fc", ""), ("/p", "x=y=z"), ("/caf%C3%A9", ""), ("/%ff", ""), ("/a+b%2B", "c+d")]
    seen = []

    def app(environ, start_response):
        seen.append(dict(environ))
        start_response("200 OK", [("Content-Type", "text/plain")])
        return [b"ok"]
    for (host, name, port), method, (path, query) in itertools.product(HOSTS, METHODS, TARGETS):
        if tier == "quick" and rng.random() < 0.5:
            continue
        body = b"" if method == "GET" else b"k=v&z"
        lines = ["%s %s%s HTTP/1.1" % (method, path, "?" + query if query else ""), "Host: " + host, "X-Custom-Hdr: one", "X-Custom-Hdr: two", "Accept: */*"]
        if body:
            lines += ["Content-Type: application/x-www-form-urlencoded", "Content-Length: %d" % len(body)]
        raw = ("\r\n".join(lines) + "\r\n\r\n").encode("latin1") + body
        del seen[:]
        evals += 1
        res = S.run_server([raw], make_app=lambda r: TW.WSGIContainer(app), eof=False, after=more_ticks)
        nontriv.add((host, method, path))
        if len(seen) != 1:
            fail("the WSGI application was not called exactly once (%d calls; errors logged: %r; wire: %r)" % (len(seen), res.errors_logged()[:1], bytes(res.sent[:60])),
                 host=host, method=method, target=path)
            continue
        e = seen[0]
        import urllib.parse
        want_path = urllib.parse.unquote_to_bytes(path).decode("latin1")
        checks = {"REQUEST_METHOD": method, "PATH_INFO": want_path, "QUERY_STRING": query, "SERVER_NAME": name,
                  "SERVER_PORT": port if port is not None else "80", "SERVER_PROTOCOL": "HTTP/1.1", "wsgi.url_scheme": "http",
                  "HTTP_HOST": host, "HTTP_X_CUSTOM_HDR": "one,two", "HTTP_ACCEPT": "*/*"}
        if body:
            checks.update({"CONTENT_TYPE": "application/x-www-form-urlencoded", "CONTENT_LENGTH": str(len(body))})
        for k, v in checks.items():
            if e.get(k) != v:
                fail("environ[%r] == %r, expected %r" % (k, e.get(k), v), host=host, method=method, target=path + "?" + query)
        if e["wsgi.input"].read() != body:
            fail("wsgi.input does not carry the request body", host=host, method=method)
        if body and ("HTTP_CONTENT_TYPE" in e or "HTTP_CONTENT_LENGTH" in e):
            fail("content headers repeated as HTTP_* keys", host=host)
    # ---- responses -> wire
    STATUSES = ["200 OK", "404 Not Found", "304 Not Modified", "201 Created", "500 Internal Server Error", "299 Custom Reason Text"]
    HSETS = [[], [("Content-Type", "application/json")], [("Content-Length", "5")], [("Server", "mine/1.0")], [("X-A", "1"), ("X-A", "2"), ("Set-Cookie", "a=b; Path=/")],
             [("content-type", "x/y"), ("content-length", "5"), ("server", "s")]]
    BODIES = [[b"hello"], [b"he", b"", b"llo"], [], [b"x" * 5]]
    for status, hs, chunks, style in itertools.product(STATUSES, HSETS, BODIES, ("iterable", "write", "closing")):
        body = b"".join(chunks)
        declared = [v for k, v in hs if k.lower() == "content-length"]
        if declared and int(declared[0]) != len(body):
            continue
        if status.startswith("304") and (body or declared):
            continue          # (an application must not attach a body to a 304; Tornado refuses to frame one: C02)
        if tier == "quick" and rng.random() < 0.5:
            continue
        closed = []

        def app2(environ, start_response, status=status, hs=hs, chunks=chunks, style=style):
            w = start_response(status, list(hs))
            if style == "write":
                for ch in chunks:
                    w(ch)
                return []
            if style == "closing":
                class It:
                    def __iter__(self):
                        return iter(chunks)

                    def close(self):
                        closed.append(1)
                return It()
            return list(chunks)
        evals += 1
        res = S.run_server([b"GET / HTTP/1.1\r\nHost: h\r\n\r\n"], make_app=lambda r: TW.WSGIContainer(app2), eof=False, after=more_ticks)
        parsed = S.split_responses(bytes(res.sent))
        nontriv.add((status, tuple(hs), style, len(chunks)))
        if len(parsed) != 1 or parsed[0][0] == "incomplete":
            fail("no complete response on the wire: %r (errors: %r)" % (bytes(res.sent[:80]), res.errors_logged()[:1]), status=status, headers=repr(hs), style=style)
            continue
        st_line, hdrs, wire_body = parsed[0]
        code = status.split(" ", 1)
        if st_line != ("HTTP/1.1 " + status).encode():
            fail("status line %r, the application said %r" % (st_line, status), headers=repr(hs))
        got = [(k.decode("latin1"), v.decode("latin1")) for k, v in hdrs]
        low = [k.lower() for k, _ in hs]
        want = [(k, v) for k, v in hs]
        if code[0] != "304":
            if "content-length" not in low:
                want.append(("Content-Length", str(len(body))))
            if "content-type" not in low:
                want.append(("Content-Type", "text/html; charset=UTF-8"))
        if "server" not in low:
            want.append(("Server", "TornadoServer/%s" % tornado.version))
        norm = lambda L: sorted((k.lower(), v) for k, v in L)
        if norm(got) != norm(want):
            fail("headers on the wire %r, expected the application's plus defaults %r" % (got, want), status=status, style=style)
        exp_body = body if code[0] != "304" or declared else body
        if code[0] == "304":
            pass      # (a 304 carries no body on the wire: C02)
        elif wire_body != body:
            fail("body on the wire %r, the application produced %r" % (wire_body[:40], body[:40]), status=status, style=style)
        if style == "closing" and closed != [1]:
            fail("the response iterable's close() was called %d times" % len(closed), status=status)
    samples.append({"host": "[::1]:8080", "expect": {"SERVER_NAME": "[::1]", "SERVER_PORT": "8080"}})
    # an application that keeps its response headers in one list and hands it to start_response for every request (F-58): each response still carries its own length
    from pyvc.standin import spec_http
    for style in ("same-list-every-request", "fresh-list"):
        SHARED = [("Content-Type", "text/plain"), ("X-App", "1")]
        bodies = [b"first", b"second-longer-body", b"", b"4th!"]
        seen = {"n": 0}

        def app3(environ, start_response):
            b = bodies[seen["n"]]
            seen["n"] += 1
            start_response("200 OK", SHARED if style == "same-list-every-request" else list(SHARED))
            return [b]
        raw3 = b"".join(b"GET /%d HTTP/1.1\r\nHost: h\r\n\r\n" % k for k in range(len(bodies)))
        res = S.run_server([raw3], make_app=lambda r: TW.WSGIContainer(app3), eof=False, after=more_ticks)
        evals += 1
        nontriv.add(("header-list-reuse", style))
        try:
            resps = spec_http.read_responses(bytes(res.sent), ["GET"] * len(bodies), res.closed)
            got = [r_["body"] for r_ in resps]
        except spec_http.Reject as e:
            got = "unreadable: %s" % e
        if got != bodies:
            fail("%d requests to an application whose header list is the %s: bodies on the wire %r, the application produced %r" % (len(bodies), style.replace("-", " "), got, bodies), style=style)
        elif style.startswith("same") and len(SHARED) != 2:
            fail("the application's own header list was changed: %r" % (SHARED,), style=style)
    return {"evaluations": evals, "distinct_nontrivial": len(nontriv), "failures": failures[:3], "samples": samples,
            "rule": "real HTTPServer + WSGIContainer on the scripted transport: %d Host forms x 3 methods x %d targets (percent-escapes incl. %%2F, non-UTF-8) with bodies and repeated "
                    "headers -> the environ the application receives (sampled in quick); %d statuses x %d header sets x %d chunkings x {iterable, write(), iterable with close()} -> "
                    "status line, header multiset (application's + the three defaults) and body parsed back from the wire" % (len(HOSTS), len(TARGETS), len(STATUSES), len(HSETS), len(BODIES)),
            "wall_s": round(time.time() - t0, 2)}
