"""C32 — proxy headers yield a valid client IP and never leak between requests (tornado/httpserver.py).  DESIGN §6.5 C32.

P: _HTTPRequestContext._apply_xheaders on symbolic header texts.  A comma-separated header value is abstracted as the
list of its entries (1..3 symbolic entries: bounded in the number of entries, unbounded in their text); the trusted set
and netutil.is_valid_ip are uninterpreted predicates.  Spec, literally the statement's:
    candidate = X-Real-Ip                                            if that header is present
              = the rightmost X-Forwarded-For entry (OWS-stripped) that is not trusted   if there is one
              = none                                                 otherwise
    remote_ip' = candidate  if there is one and it is a numeric IP address,   else the socket address
    protocol'  = the last entry of X-Scheme (else X-Forwarded-Proto) if it is 'http' or 'https', else unchanged
and never anything else, never an exception.  _unapply_xheaders restores both fields; _ProxyAdapter applies the headers
before the application sees the request and restores on finish and on close (exactly one of which ends every request:
C05), so nothing derived from one request is visible to the next.
B: keep-alive request sequences with header grammars through the real HTTPServer(xheaders=True).
"""
import re
import socket
import types

import z3

from pyvc.unit import unit
from pyvc.proxies import And, Or, Not, Implies, SBool, SInt, SStr
from pyvc import regex, strmodel, core

LEVEL = "other"
EXPLANATION = ("MIXED. _HTTPRequestContext._apply_xheaders proved for symbolic header entries (lists of <= 3 entries per header, arbitrary text; trusted set and "
               "is_valid_ip uninterpreted): remote_ip becomes X-Real-Ip if present, else the rightmost untrusted X-Forwarded-For entry, and only if that is a "
               "numeric IP - otherwise it stays the socket address; protocol becomes the last X-Scheme / X-Forwarded-Proto entry only if it is http or https; "
               "never raises. _unapply_xheaders restores both; _ProxyAdapter applies before delegating and restores after finish / close. Keep-alive "
               "sequences through the real server in the stand-in, with netutil.is_valid_ip's own contract checked on an address grammar. Found and fixed F-27.")
TRUSTED = ["comma-separated header value abstracted as the list of its entries (str.split(',') exact for <= 3 entries)", "str.strip as an uninterpreted function of the text in the proof unit (the stand-in runs the real one)",
           "netutil.is_valid_ip and membership in trusted_downstream as uninterpreted predicates in the proof unit", "HTTPHeaders.get (C06)"]
ASSUMPTIONS = ["the connection's own protocol is 'http' or 'https'", "A-TYPES: header values are str", "requests end by exactly one of finish / on_connection_close (C05)"]
M = "tornado.httpserver"
VALID = z3.Function("is_valid_ip", z3.StringSort(), z3.BoolSort())
TRUSTEDP = z3.Function("in_trusted_downstream", z3.StringSort(), z3.BoolSort())
STRIP = z3.Function("str_strip", z3.StringSort(), z3.StringSort())


class CSV(str):
    """a header value known as the list of its comma-separated entries."""
    def __new__(cls, entries):
        o = str.__new__(cls, "<csv>")
        o.entries = entries
        return o

    def split(self, sep=None, maxsplit=-1):
        if sep != ",":
            raise core.Unsupported("split(%r) of a header value" % (sep,))
        return list(self.entries)

    def __bool__(self):
        # a header value with several entries, or one non-empty entry, is a non-empty text
        if len(self.entries) > 1:
            return True
        e = self.entries[0]
        return bool(e != "") if isinstance(e, SStr) else bool(e)


class TrustedSet:
    def __contains__(self, x):
        if isinstance(x, SStr):
            return SBool(TRUSTEDP(x.t))
        return x in ("10.0.0.1", "10.0.0.2")


def _strip_t(c, e):
    """the OWS-stripped text of entry e, as the code computes it (str.strip model) - spec side uses the same model"""
    return e.strip()


@unit("C32", "_HTTPRequestContext._apply_xheaders", [(M, "_HTTPRequestContext._apply_xheaders")],
      bounded=None, note="entries per header <= 3 (exact split for those); texts unbounded")
def u_apply(c):
    import tornado.httpserver as HS
    c.fresh_feasibility = True
    ctx = HS._HTTPRequestContext.__new__(HS._HTTPRequestContext)
    sock_ip = c.str("socket_ip")
    orig_proto = c.choose("connection-protocol", ["http", "https"])
    ctx.remote_ip, ctx._orig_remote_ip = sock_ip, sock_ip
    ctx.protocol, ctx._orig_protocol = orig_proto, orig_proto
    ctx.trusted_downstream = TrustedSet()
    n_xff = c.choose("x-forwarded-for-entries", [0, 1, 2, 3])
    has_real = c.choose("x-real-ip", [False, True])
    which_proto = c.choose("proto-header", ["none", "X-Scheme", "X-Forwarded-Proto", "both"])
    n_proto = 1 if which_proto in ("none", "both") else c.choose("proto-entries", [1, 2])
    hdr = {}
    if not c.symbolic:
        pool = ["1.2.3.4", " 5.6.7.8 ", "10.0.0.1", "10.0.0.2", "evil", "", "::1", "1.2.3.4\x00", " 10.0.0.1"]
        xff = [c.rng.choice(pool) for _ in range(n_xff)]
        real = c.rng.choice(pool) if has_real else None
        protos = {k: [c.rng.choice(["http", "https", " https ", "ftp", "", "HTTP"]) for _ in range(n_proto)] for k in ("X-Scheme", "X-Forwarded-Proto")}
        sock_ip = c.rng.choice(["9.9.9.9", "10.0.0.2"])
        ctx.remote_ip = ctx._orig_remote_ip = sock_ip
        ctx.trusted_downstream = {"10.0.0.1", "10.0.0.2"}
        c.values.update({"xff": xff, "real": real, "protos": protos, "socket_ip": sock_ip})
        if n_xff:
            hdr["X-Forwarded-For"] = ",".join(xff)
        if has_real:
            hdr["X-Real-Ip"] = real
        for k in ("X-Scheme", "X-Forwarded-Proto"):
            if which_proto in (k, "both"):
                hdr[k] = ",".join(protos[k])
        import tornado.netutil as NU
        out = c.call(c.fn(M, "_HTTPRequestContext._apply_xheaders"), ctx, hdr)
        c.only_raises(out, ())
        if out.raised:
            return
        cand = None
        if has_real:
            cand = real
        elif n_xff:
            for e in reversed([x.strip() for x in ",".join(xff).split(",")]):
                if e not in ctx.trusted_downstream:
                    cand = e
                    break
        want_ip = cand if (cand is not None and NU.is_valid_ip(cand)) else sock_ip
        c.oblige("post/remote-ip-is-the-statement's-candidate-if-numeric-else-the-socket-address", ctx.remote_ip == want_ip)
        src = "X-Scheme" if which_proto in ("X-Scheme", "both") else ("X-Forwarded-Proto" if which_proto == "X-Forwarded-Proto" else None)
        last = ",".join(protos[src]).split(",")[-1].strip() if src else None
        c.oblige("post/protocol-is-http-or-https", ctx.protocol in ("http", "https"))
        c.oblige("post/protocol-from-the-last-proto-entry-only-if-http-or-https", ctx.protocol == (last if last in ("http", "https") else orig_proto))
        c.oblige("frame/originals-untouched", ctx._orig_remote_ip == sock_ip and ctx._orig_protocol == orig_proto, kind="frame")
        return
    xff = [c.str("xff_%d" % i, latin1=True) for i in range(n_xff)]
    real = c.str("x_real_ip", latin1=True) if has_real else None
    protos = {k: [c.str("%s_%d" % (k.replace("-", "_"), i), latin1=True) for i in range(n_proto)] for k in ("X-Scheme", "X-Forwarded-Proto")}
    if n_xff:
        hdr["X-Forwarded-For"] = CSV(xff)
    if has_real:
        hdr["X-Real-Ip"] = real
    for k in ("X-Scheme", "X-Forwarded-Proto"):
        if which_proto in (k, "both"):
            hdr[k] = CSV(protos[k])
    # the socket address, when it is consulted as if it were a header value, is a single entry
    stripped = {}
    real_strip = SStr.strip

    def strip_recording(self, chars=None):
        # str.strip() as an uninterpreted function of the text: the clauses only need "the same stripped entry on both
        # sides"; the exact regex model of strip made the string solver overrun on paths with several entries
        if chars is not None:
            raise core.Unsupported("strip(chars)")
        r = SStr(STRIP(self.t), False, getattr(self, "narrow", False))
        stripped[id(self)] = (self, r)
        return r
    valid_seen = []

    def is_valid_ip_stub(ip):
        valid_seen.append(ip)
        if isinstance(ip, SStr):
            return bool(SBool(VALID(ip.t)))
        raise core.Unsupported("is_valid_ip(%r)" % (ip,))
    fake_netutil = types.SimpleNamespace(is_valid_ip=is_valid_ip_stub)
    old_split = SStr.split
    SStr.split = lambda self, sep=None, maxsplit=-1: [self] if sep == "," else old_split(self, sep, maxsplit)   # a lone address has no comma (assumed below)
    SStr.strip = strip_recording
    try:
        if c.symbolic:
            c.assume(Not(sock_ip.contains(",")))
            # the socket address is a numeric address: no surrounding whitespace; stripping the empty text gives the empty text
            c.assume_z3(STRIP(sock_ip.t) == sock_ip.t)
            c.assume_z3(STRIP(z3.StringVal("")) == z3.StringVal(""))
        with c.patched((HS, "netutil", fake_netutil)):
            out = c.call(c.fn(M, "_HTTPRequestContext._apply_xheaders"), ctx, hdr)
    finally:
        SStr.split = old_split
        SStr.strip = real_strip
    c.only_raises(out, ())
    if out.raised:
        return
    c.cover("apply/xff%d-real%s-%s" % (n_xff, has_real, which_proto))

    def S(e):            # the stripped text the code computed for entry e (or computes now, same model)
        return stripped[id(e)][1] if id(e) in stripped else SStr(STRIP(e.t), False)
    # --- remote_ip
    if has_real:
        cand, has_cand = real, SBool(z3.BoolVal(True))
    elif n_xff:
        ss = [S(e) for e in xff]
        cand_t, has_t = z3.StringVal(""), z3.BoolVal(False)
        for s_ in ss:                      # left to right: a later (more to the right) untrusted entry overrides
            unt = z3.Not(TRUSTEDP(s_.t))
            cand_t = z3.If(unt, s_.t, cand_t)
            has_t = z3.Or(unt, has_t)
        cand, has_cand = SStr(cand_t, False), SBool(has_t)
    else:
        cand, has_cand = None, SBool(z3.BoolVal(False))
    ri = ctx.remote_ip
    ri_t = ri.t if isinstance(ri, SStr) else z3.StringVal(ri)
    if cand is None:
        c.oblige("post/remote-ip-is-the-statement's-candidate-if-numeric-else-the-socket-address", SBool(ri_t == sock_ip.t))
    else:
        c.oblige("post/remote-ip-is-the-statement's-candidate-if-numeric-else-the-socket-address",
                 SBool(ri_t == z3.If(z3.And(has_cand.t, VALID(cand.t)), cand.t, sock_ip.t)))
    c.oblige("post/remote-ip-from-headers-is-always-validated", SBool(z3.Or(ri_t == sock_ip.t, VALID(ri_t))))
    # --- protocol
    src = "X-Scheme" if which_proto in ("X-Scheme", "both") else ("X-Forwarded-Proto" if which_proto == "X-Forwarded-Proto" else None)
    pr = ctx.protocol
    pr_t = pr.t if isinstance(pr, SStr) else z3.StringVal(pr)
    c.oblige("post/protocol-is-http-or-https", SBool(z3.Or(pr_t == z3.StringVal("http"), pr_t == z3.StringVal("https"))))
    if src is None:
        c.oblige("post/protocol-from-the-last-proto-entry-only-if-http-or-https", SBool(pr_t == z3.StringVal(orig_proto)))
    else:
        last = S(protos[src][-1])
        ok = z3.Or(last.t == z3.StringVal("http"), last.t == z3.StringVal("https"))
        c.oblige("post/protocol-from-the-last-proto-entry-only-if-http-or-https", SBool(pr_t == z3.If(ok, last.t, z3.StringVal(orig_proto))))
    c.oblige("frame/originals-untouched", ctx._orig_remote_ip is sock_ip and ctx._orig_protocol == orig_proto, kind="frame")


@unit("C32", "_HTTPRequestContext._unapply_xheaders", [(M, "_HTTPRequestContext._unapply_xheaders")])
def u_unapply(c):
    import tornado.httpserver as HS
    ctx = HS._HTTPRequestContext.__new__(HS._HTTPRequestContext)
    ctx._orig_remote_ip, ctx._orig_protocol = c.str("socket_ip"), c.choose("protocol", ["http", "https"])
    ctx.remote_ip, ctx.protocol = c.str("forwarded_ip"), c.choose("forwarded-protocol", ["http", "https"])
    out = c.call(c.fn(M, "_HTTPRequestContext._unapply_xheaders"), ctx)
    c.only_raises(out, ())
    c.cover("unapply")
    c.oblige("post/socket-address-and-protocol-restored", ctx.remote_ip is ctx._orig_remote_ip and ctx.protocol == ctx._orig_protocol)


XH_SETS = [{}, {"X-Real-Ip": "4.4.4.4"}, {"X-Forwarded-For": "5.5.5.5"}, {"X-Forwarded-For": "6.6.6.6, 127.0.0.1"}, {"X-Real-Ip": "not an ip"}, {"X-Real-Ip": "2001:db8::1"},
           {"X-Scheme": "https"}, {"X-Forwarded-Proto": "http"}, {"X-Real-Ip": "4.4.4.4", "X-Scheme": "http"}, {"X-Real-Ip": "4.4.4.4", "X-Scheme": "https"},
           {"X-Forwarded-For": "5.5.5.5", "X-Forwarded-Proto": "https"}, {"X-Scheme": "gopher"},
           # an address header that is present but unusable next to a usable scheme header (and the other way round): each field is restored on its own
           {"X-Real-Ip": "10.0.0.300", "X-Scheme": "https"}, {"X-Forwarded-For": "unknown", "X-Forwarded-Proto": "https"}, {"X-Real-Ip": "4.4.4.4", "X-Scheme": "gopher"}]


@unit("C32", "context.lifecycle", [(M, "_HTTPRequestContext.__init__"), (M, "_HTTPRequestContext._apply_xheaders"), (M, "_HTTPRequestContext._unapply_xheaders")],
      bounded="finite case analysis: 5 kinds of connection (IPv4, IPv6, Unix socket, closed stream, TLS) x %d header sets for a first request x %d for a second one on the same "
              "connection, on a context built by the real constructor" % (len(XH_SETS), len(XH_SETS)))
def u_lifecycle(c):
    """whatever the first request's forwarding headers did to the connection's context, after it is over the context shows the socket's own address and protocol again (what the
    constructor derived from the connection - not from any particular saved field), so the second request starts from there: nothing leaks between requests, on any kind of socket"""
    import socket
    import tornado.httpserver as HS
    import tornado.httputil as HU
    import tornado.iostream as IO
    from pyvc import core
    core.PATH_CAP = max(core.PATH_CAP, 4000)
    kind = c.choose("connection", ["ipv4", "ipv6", "unix-socket", "closed-stream", "tls"])
    first = c.choose("first-request-headers", list(range(len(XH_SETS))))
    second = c.choose("second-request-headers", list(range(len(XH_SETS))))

    class Sock:
        family = {"ipv4": socket.AF_INET, "ipv6": socket.AF_INET6, "unix-socket": socket.AF_UNIX, "tls": socket.AF_INET}.get(kind)
    stream = (IO.SSLIOStream if kind == "tls" else IO.IOStream).__new__(IO.SSLIOStream if kind == "tls" else IO.IOStream)
    stream.socket = None if kind == "closed-stream" else Sock()
    address = {"ipv4": ("10.0.0.9", 1234), "ipv6": ("fe80::9", 1234, 0, 0), "unix-socket": "", "closed-stream": ("10.0.0.9", 1234), "tls": ("10.0.0.9", 1234)}[kind]
    ctx = HS._HTTPRequestContext.__new__(HS._HTTPRequestContext)
    out = c.call(c.fn(M, "_HTTPRequestContext.__init__"), ctx, stream, address, None, ["127.0.0.1"])
    c.only_raises(out, ())
    if not out.returned:
        return
    own = (ctx.remote_ip, ctx.protocol)
    c.oblige("init/the-context-shows-the-socket's-own-address-and-protocol",
             own == ({"ipv4": "10.0.0.9", "ipv6": "fe80::9", "tls": "10.0.0.9"}.get(kind, "0.0.0.0"), "https" if kind == "tls" else "http"))
    apply_, unapply = c.fn(M, "_HTTPRequestContext._apply_xheaders"), c.fn(M, "_HTTPRequestContext._unapply_xheaders")
    o1 = c.call(apply_, ctx, HU.HTTPHeaders(XH_SETS[first]))
    c.only_raises(o1, ())
    o2 = c.call(unapply, ctx)
    c.only_raises(o2, ())
    c.cover("lifecycle")
    c.oblige("post/after-the-first-request-the-context-is-the-socket's-own-again", (ctx.remote_ip, ctx.protocol) == own)
    o3 = c.call(apply_, ctx, HU.HTTPHeaders(XH_SETS[second]))
    c.only_raises(o3, ())
    h2 = XH_SETS[second]
    names_ip = "X-Real-Ip" in h2 or "X-Forwarded-For" in h2
    names_proto = "X-Scheme" in h2 or "X-Forwarded-Proto" in h2
    c.oblige("post/a-second-request-that-names-no-address-sees-the-socket's-own", names_ip or ctx.remote_ip == own[0])
    c.oblige("post/a-second-request-that-names-no-protocol-sees-the-socket's-own", names_proto or ctx.protocol == own[1])
    c.oblige("post/an-address-that-is-not-numeric-is-never-taken", ctx.remote_ip in (own[0], "4.4.4.4", "5.5.5.5", "6.6.6.6", "2001:db8::1"))
    o4 = c.call(unapply, ctx)
    c.only_raises(o4, ())
    c.oblige("post/after-the-second-request-too", (ctx.remote_ip, ctx.protocol) == own)


@unit("C32", "_ProxyAdapter", [(M, "_ProxyAdapter.headers_received"), (M, "_ProxyAdapter.finish"), (M, "_ProxyAdapter.on_connection_close"),
                               (M, "_ProxyAdapter.data_received"), (M, "_ProxyAdapter._cleanup")])
def u_adapter(c):
    import tornado.httpserver as HS
    log = []
    raises = c.choose("delegate-raises", [False, True])

    class D:
        def headers_received(self, sl, h):
            log.append(("d.headers", ctxo.applied))
            return "hr"

        def data_received(self, chunk):
            log.append(("d.data", chunk))
            return "dr"

        def finish(self):
            log.append(("d.finish", ctxo.applied))
            if raises:
                raise RuntimeError("application failed")

        def on_connection_close(self):
            log.append(("d.close", ctxo.applied))
            if raises:
                raise RuntimeError("application failed")

    class Ctx:
        applied = False

        def _apply_xheaders(self, h):
            log.append(("apply", h))
            self.applied = True

        def _unapply_xheaders(self):
            log.append(("unapply",))
            self.applied = False
    ctxo = Ctx()
    conn = types.SimpleNamespace(context=ctxo)
    a = HS._ProxyAdapter.__new__(HS._ProxyAdapter)
    c.call(c.fn(M, "_ProxyAdapter.__init__"), a, D(), conn)
    op = c.choose("operation", ["headers_received", "data_received", "finish", "on_connection_close"])
    hdrs = object()
    if op == "headers_received":
        out = c.call(c.fn(M, "_ProxyAdapter.headers_received"), a, "startline", hdrs)
        c.only_raises(out, ())
        c.oblige("post/headers-applied-before-the-application-sees-the-request", log == [("apply", hdrs), ("d.headers", True)] and out.returned and out.value == "hr")
    elif op == "data_received":
        out = c.call(c.fn(M, "_ProxyAdapter.data_received"), a, b"x")
        c.only_raises(out, ())
        c.oblige("post/data-passed-through", log == [("d.data", b"x")])
    else:
        ctxo.applied = True
        out = c.call(c.fn(M, "_ProxyAdapter." + op), a)
        c.only_raises(out, (RuntimeError,) if raises else ())
        c.cover("adapter/" + op)
        if not raises:
            c.oblige("post/restored-after-the-request-ends", log == [("d." + ("finish" if op == "finish" else "close"), True), ("unapply",)] and ctxo.applied is False)


# ---------------------------------------------------------------------------------- bounded stand-in
def standin(tier, seed):
    import itertools
    import random
    import time
    import tornado.netutil as NU
    from pyvc.standin import httpserver as S
    t0 = time.time()
    rng = random.Random(seed)
    evals, nontriv, failures, samples = 0, set(), [], []
    SOCK = "10.1.2.3"
    TRUSTED_DS = ["10.0.0.1", "10.0.0.2", SOCK]
    XFF = [None, "1.2.3.4", "1.2.3.4, 10.0.0.1", "10.0.0.1, 10.0.0.2", "10.0.0.1", "evil, 10.0.0.1", " 5.6.7.8 ,10.0.0.2 ", "1.2.3.4,", "", "::1, 10.0.0.1",
           "1.2.3.4, 8.8.8.8", "not an ip", "1.2.3.4\t", "10.0.0.2,10.0.0.1,10.0.0.2", "2001:db8::1", "4.4.4.4, \xb9.\xb2.\xb3.4", "2001:db8::7%<b>"]
    REAL = [None, "4.4.4.4", "bogus", "", " 4.4.4.4", "10.0.0.1", "\xb9.\xb2.\xb3.4", '2001:db8::7%"><img src=x>', "fe80::1%lo"]
    PROTO = [None, ("X-Scheme", "https"), ("X-Forwarded-Proto", "https"), ("X-Forwarded-Proto", "http, https"), ("X-Scheme", "ftp"), ("X-Forwarded-Proto", "https, ftp"),
             ("X-Scheme", ""), ("X-Forwarded-Proto", " https "), ("X-Scheme", "HTTPS")]
    if tier == "quick":
        combos = [(x, r, p) for x in XFF for r in REAL[:3] for p in PROTO[:5]] + [(x, r, p) for x in XFF[:4] for r in REAL for p in PROTO]
    else:
        combos = list(itertools.product(XFF, REAL, PROTO))

    def numeric(x):
        """independent reading of 'a numeric IP address': ASCII text that inet_pton (or the legacy inet_aton forms) parses,
        an IPv6 address possibly carrying a %zone made of interface-name characters"""
        import socket as _s
        if not x or not x.isascii() or "\x00" in x:
            return False
        host, pct, zone = x.partition("%")
        for fam in (_s.AF_INET, _s.AF_INET6):
            try:
                _s.inet_pton(fam, host)
                if fam == _s.AF_INET:
                    return not pct
                return (not pct) or re.fullmatch(r"[A-Za-z0-9_.:-]+", zone) is not None
            except OSError:
                pass
        try:
            _s.inet_aton(x)
            return re.fullmatch(r"[0-9a-fA-FxX.]+", x) is not None
        except OSError:
            return False

    def expected(x, r, p, trusted):
        # (the HTTP header parser removes optional whitespace around every field value)
        x = x.strip(" \t") if x is not None else None
        r = r.strip(" \t") if r is not None else None
        p = (p[0], p[1].strip(" \t")) if p is not None else None
        cand = None
        if r is not None:
            cand = r
        elif x is not None:
            for e in reversed([t.strip() for t in x.split(",")]):
                if e not in trusted:
                    cand = e
                    break
        ip = cand if (cand is not None and numeric(cand)) else SOCK
        proto = "http"
        if p is not None:
            last = p[1].split(",")[-1].strip()
            if last in ("http", "https"):
                proto = last
        return ip, proto

    def req(x, r, p):
        lines = ["GET / HTTP/1.1", "Host: h"]
        if x is not None:
            lines.append("X-Forwarded-For: " + x)
        if r is not None:
            lines.append("X-Real-Ip: " + r)
        if p is not None:
            lines.append("%s: %s" % p)
        return ("\r\n".join(lines) + "\r\n\r\n").encode("latin1")
    seen = []

    def make_app(res):
        def cb(request):
            seen.append((request.remote_ip, request.protocol))
            from tornado import httputil
            h = httputil.HTTPHeaders()
            h.add("Content-Length", "2")
            request.connection.write_headers(httputil.ResponseStartLine("HTTP/1.1", 200, "OK"), h, b"ok")
            request.connection.finish()
        return cb
    for trusted in (TRUSTED_DS, []):
        # each combination followed, on the same connection, by a bare request: nothing may leak into it
        for (x, r, p) in combos:
            del seen[:]
            evals += 1
            res = S.run_server([req(x, r, p), req(None, None, None)], make_app=make_app,
                               server_kwargs={"xheaders": True, "trusted_downstream": trusted}, address=(SOCK, 4321))
            want = expected(x, r, p, set(trusted))
            nontriv.add((x, r, p, bool(trusted)))
            bad = None
            if len(seen) != 2:
                bad = "expected 2 requests to reach the application, saw %d (errors: %r)" % (len(seen), res.errors_logged()[:1])
            elif seen[0] != want:
                bad = "remote_ip/protocol %r, expected %r" % (seen[0], want)
            elif seen[1] != (SOCK, "http"):
                bad = "values of the previous request leaked into the next one: %r" % (seen[1],)
            elif not numeric(seen[0][0]):
                bad = "remote_ip %r is not a numeric address" % (seen[0][0],)
            if bad and len(failures) < 4:
                failures.append({"what": bad, "history": {"X-Forwarded-For": x, "X-Real-Ip": r, "proto": p, "trusted_downstream": trusted}})
    # is_valid_ip's own contract (used as an uninterpreted predicate above)
    good = ["1.2.3.4", "0.0.0.0", "255.255.255.255", "::1", "2001:db8::1", "::ffff:1.2.3.4", "fe80::1"]
    badv = ["\xb9.\xb2.\xb3.4", "\uff11.\uff12.\uff13.\uff14", "1\u30022\u30023\u30024", '2001:db8::7%"><img src=x>', "2001:db8::7%junk junk", "::1%", "", "a.b.c.d", "example.com", "1.2.3.4\x00", "\x00", "1.2.3.256", "1.2.3.4.5", "12345::1", "1.2.3.4 ", " 1.2.3.4", "x" * 100, "1.2.3.4,5.6.7.8", "localhost"]
    for g in good:
        evals += 1
        if not NU.is_valid_ip(g):
            failures.append({"what": "is_valid_ip rejected the plain address %r" % g, "history": {"ip": g}})
    for b in badv:
        evals += 1
        try:
            if NU.is_valid_ip(b):
                failures.append({"what": "is_valid_ip accepted %r" % b, "history": {"ip": b}})
        except Exception as e:
            failures.append({"what": "is_valid_ip(%r) raised %s" % (b, type(e).__name__), "history": {"ip": b}})
    samples.append({"X-Forwarded-For": "10.0.0.1, 10.0.0.2 (all trusted)", "expect_remote_ip": SOCK})
    return {"evaluations": evals, "distinct_nontrivial": len(nontriv), "failures": failures[:3], "samples": samples,
            "rule": "real HTTPServer(xheaders=True, trusted_downstream in {3 addresses incl. the socket peer, none}) on the scripted transport: %d combinations of "
                    "X-Forwarded-For x X-Real-Ip x scheme header, each followed on the same keep-alive connection by a request without proxy headers; the first must "
                    "show the statement's remote_ip (a numeric address) and protocol, the second the socket address and 'http'; plus is_valid_ip on %d addresses" % (len(combos), len(good) + len(badv)),
            "wall_s": round(time.time() - t0, 2)}
