"""C33 — Semaphore / BoundedSemaphore / Lock (tornado/locks.py).  DESIGN §6.6.

Class invariant Inv(s), from the property statement:
  I1  s._value >= 0                                   (with I3: granted-and-unreleased <= initial)
  I2  s._value > 0  =>  no PENDING future in s._waiters   (no idle permit while a live waiter waits)
  I3  s._value == initial + releases - grants         (ghost accounting)
Every operation (public methods, the on_timeout closure, _garbage_collect, environment
cancellation) is verified from an arbitrary Inv-state; by induction Inv and the per-operation
postconditions hold on every history/schedule.
"""
import z3

from pyvc.unit import unit
from pyvc.proxies import And, Or, Not, Implies, SBool, SInt, SSeq, Len
from pyvc.rewrite import LoopSpec
from pyvc import heap as H
from pyvc.heap import PENDING, RESULT, EXC, CANCELLED, st

LEVEL = "proof"
EXPLANATION = ("Class-invariant proof for tornado.locks.Semaphore/BoundedSemaphore/Lock: each operation's real "
               "body is executed symbolically from an arbitrary invariant state (waiter deque of unbounded "
               "length as an array slice, futures as a symbolic heap); loop of release cut at its invariant.")
TRUSTED = ["asyncio.Future state machine model (pyvc.heap.SFut)", "IOLoop.add_timeout/remove_timeout as ghost registrations"]
ASSUMPTIONS = ["A-LOOP single-threaded run-to-completion callbacks", "A-ENV environment acts only through public methods, registered callbacks and future cancellation"]

M = "tornado.locks"


def mk_sem(c, cls_name="Semaphore"):
    import tornado.locks as L
    cls = getattr(L, cls_name)
    s = cls.__new__(cls)
    s._waiters = H.fut_seq(c, "waiters")
    s._timeouts = c.nat("timeouts")
    s._value = c.int("value")
    g = {"initial": c.int("initial"), "releases": c.nat("releases")}
    g["grants"] = g["initial"] + g["releases"] - s._value      # ghost accounting I3 holds by construction
    if cls_name == "BoundedSemaphore":
        s._initial_value = g["initial"]
    return s, g


def inv(c, s, g):
    return And(s._value >= 0,
               Implies(s._value > 0, H.seq_forall(s._waiters, lambda w, i: st(w) != PENDING)),
               s._value == g["initial"] + g["releases"] - g["grants"])


def env(c):
    import tornado.locks as L
    import tornado.ioloop as IL
    loop = H.loop_double(c)
    return c.patched((L, "Future", H.new_future if c.symbolic else (lambda: H.heap(c).new())),
                     (IL.IOLoop, "current", staticmethod(lambda *a, **k: loop)))


def release_post(c, s, g, W, snap, v0, label=""):
    """Postcondition of release() from the statement: grant to the first live waiter in arrival
    order, else bank the permit; nothing else changes."""
    import tornado.locks as L
    if isinstance(W, SSeq):
        lo1 = s._waiters.lo
        k = lo1 - 1          # absolute index of the granted waiter in case A
        i = z3.Int("ri")
        sel = z3.Select(W.arr, i)
        dead_before = lambda upto: z3.ForAll([i], z3.Implies(z3.And(W.lo <= i, i < upto),
                                                              z3.Select(snap.st, sel) != PENDING), patterns=[sel])
        wk = H.SFut(H.heap(c), z3.Select(W.arr, k))
        same_q = z3.And(s._waiters.arr == W.arr, s._waiters.hi == W.hi)
        A = z3.And(W.lo <= k, k < W.hi, dead_before(k), z3.Select(snap.st, wk.ref) == PENDING,
                   H.result_isinstance(wk, L._ReleasingContextManager).t,
                   H.heap_eq_except(c, snap, wk, RESULT).t, (s._value == v0).t, same_q)
        B = z3.And(lo1 == W.hi, s._waiters.hi == W.hi, dead_before(W.hi), (s._value == v0 + 1).t,
                   H.heap_eq(c, snap).t)
        return SBool(z3.Or(A, B))
    # concrete deque (replay / cross-check / unrolled witness search): compute the spec outcome
    Wl = list(W)
    for j, w in enumerate(Wl):
        if snap.st_of(w) == PENDING:
            rest = [x for x in Wl if x is not w]
            return And(H.result_isinstance(w, L._ReleasingContextManager), s._value == v0,
                       len(s._waiters) == len(Wl) - j - 1,
                       all(a is b for a, b in zip(s._waiters, Wl[j + 1:])),
                       *[Or(x == w, st(x) == snap.st_of(x)) for x in rest])
    return And(s._value == v0 + 1, len(s._waiters) == 0, *[st(w) == snap.st_of(w) for w in Wl])


def release_loop(c, s, W, snap, v0):
    def loop_inv(c_, L, old):
        sw = s._waiters
        i = z3.Int("li")
        sel = z3.Select(W.arr, i)
        return SBool(z3.And(
            (s._value == v0 + 1).t, sw.arr == W.arr, sw.hi == W.hi, W.lo <= sw.lo, sw.lo <= sw.hi,
            z3.ForAll([i], z3.Implies(z3.And(W.lo <= i, i < sw.lo), z3.Select(snap.st, sel) != PENDING),
                      patterns=[sel]),
            H.heap_eq(c, snap).t))

    def fields(c_, L):
        H.havoc_object(c, s)
        H.havoc_heap(c)
    return LoopSpec(loop_inv, fields=fields)


@unit("C33", "Semaphore.release", [(M, "Semaphore.release")])
def u_release(c):
    s, g = mk_sem(c)
    c.assume(inv(c, s, g))
    W, snap, v0 = H.snapshot_seq(s._waiters), H.HeapSnap(c), s._value
    loops = {0: release_loop(c, s, W, snap, v0)} if c.symbolic else {}
    f = c.fn(M, "Semaphore.release", loops=loops)
    with env(c):
        out = c.call(f, s)
    c.only_raises(out, ())
    if out.raised:
        return
    c.cover("release/normal-exit")
    c.oblige("post/grant-first-live-waiter-else-bank", release_post(c, s, g, W, snap, v0))
    granted = s._value == v0
    g2 = dict(g, releases=g["releases"] + 1,
              grants=g["grants"] + (1 if granted is True else 0 if granted is False else SInt(z3.If(granted.t, 1, 0))))
    c.oblige("inv/preserved", inv(c, s, g2), kind="inv-preserve")


@unit("C33", "Semaphore.__init__", [(M, "Semaphore.__init__"), (M, "_TimeoutGarbageCollector.__init__")])
def u_init(c):
    import tornado.locks as L
    s = L.Semaphore.__new__(L.Semaphore)
    v = c.int("value")
    f = c.fn(M, "Semaphore.__init__")
    out = c.call(f, s, v)
    c.only_raises(out, (ValueError,))
    if out.raised:
        c.oblige("raises/ValueError-iff-negative", v < 0)
        return
    c.cover("init/normal")
    c.oblige("post/nonnegative", v >= 0)
    g = {"initial": v, "releases": 0, "grants": 0}
    c.oblige("post/no-waiters", Len(s._waiters) == 0)
    c.oblige("inv/established", And(s._value >= 0, s._value == g["initial"]), kind="inv-init")


@unit("C33", "Semaphore.acquire", [(M, "Semaphore.acquire")])
def u_acquire(c):
    import tornado.locks as L
    s, g = mk_sem(c)
    c.assume(inv(c, s, g))
    W, snap, v0 = H.snapshot_seq(s._waiters), H.HeapSnap(c), s._value
    tkind = c.choose("timeout", ["none", "number"])
    timeout = None if tkind == "none" else c.real("timeout")
    f = c.fn(M, "Semaphore.acquire")
    loop = H.loop_double(c)
    with env(c):
        out = c.call(f, s, timeout)
    c.only_raises(out, ())
    if out.raised:
        return
    c.cover("acquire/normal-exit")
    w = out.value
    immediate = v0 > 0
    # immediate grant iff a permit was available; otherwise queued at the tail, PENDING
    c.oblige("post/immediate-grant-iff-permit",
             Or(And(immediate, st(w) == RESULT, H.result_isinstance(w, L._ReleasingContextManager),
                    s._value == v0 - 1, H.seq_len(s._waiters) == H.seq_len(W)),
                And(Not(immediate), st(w) == PENDING, s._value == v0,
                    H.seq_len(s._waiters) == H.seq_len(W) + 1)))
    if isinstance(W, SSeq):
        sw = s._waiters
        queued = z3.And(sw.lo == W.lo, sw.hi == W.hi + 1, sw.arr == z3.Store(W.arr, W.hi, w.ref))
        c.oblige("post/queued-at-tail-arrival-order",
                 Or(immediate, SBool(queued)))
        c.oblige("frame/other-futures-unchanged",
                 SBool(z3.ForAll([z3.Int("fi")], z3.Implies(z3.Int("fi") >= 0,
                       z3.Select(H.heap(c).st, z3.Int("fi")) == z3.Select(snap.st, z3.Int("fi"))))), kind="frame")
    else:
        c.oblige("post/queued-at-tail-arrival-order",
                 Or(immediate, len(s._waiters) == len(W) + 1 and all(a is b for a, b in zip(s._waiters, W))
                    and s._waiters[-1] is w))
    # registration completeness: a timer only when queued with a timeout, its callback is the
    # on_timeout closure over this waiter; exactly one done-callback removes it
    timers = loop.live_timers()
    if timeout is None:
        c.oblige("reg/no-timer-without-timeout", len(timers) == 0)
    else:
        c.oblige("reg/timer-iff-queued", Or(And(immediate, len(timers) == 0), And(Not(immediate), len(timers) == 1)))
        for h_ in timers:
            c.oblige("reg/timer-callback-is-on_timeout", h_.cb.__name__ == "on_timeout" and
                     "acquire.<locals>" in h_.cb.__qualname__)
            cell = dict(zip(h_.cb.__code__.co_freevars, h_.cb.__closure__))
            c.oblige("reg/capture-fact-waiter", cell["waiter"].cell_contents is w and cell["self"].cell_contents is s)
    g2 = dict(g, grants=g["grants"] + (SInt(z3.If(immediate.t, 1, 0)) if c.symbolic else int(immediate)))
    c.oblige("inv/preserved", inv(c, s, g2), kind="inv-preserve")


@unit("C33", "Semaphore.acquire.on_timeout", [(M, "Semaphore.acquire.<locals>.on_timeout")])
def u_on_timeout(c):
    """Timer callback; may fire in ANY Inv-state in which `waiter` is a future created by acquire
    (capture fact).  Must only fail PENDING waiters, with TimeoutError, and never raise."""
    import tornado.gen as G
    s, g = mk_sem(c)
    waiter = H.pre_future(c, "waiter")
    c.assume(inv(c, s, g))
    snap, v0 = H.HeapSnap(c), s._value
    f = c.fn(M, "Semaphore.acquire", closure="on_timeout", cells={"waiter": waiter, "self": s})
    gc = c.fn(M, "_TimeoutGarbageCollector._garbage_collect")
    calls = []
    with env(c), c.patched((type(s), "_garbage_collect", lambda self_: calls.append(self_))):
        out = c.call(f)
    c.only_raises(out, ())
    if out.raised:
        return
    c.cover("on_timeout/normal-exit")
    was_pending = snap.st_of(waiter) == PENDING
    c.oblige("post/pending-waiter-gets-TimeoutError",
             Implies(was_pending, And(st(waiter) == EXC, H.exc_isinstance(waiter, G.TimeoutError))))
    c.oblige("post/done-waiter-untouched", Implies(Not(was_pending), st(waiter) == snap.st_of(waiter)))
    c.oblige("post/no-permit-change", s._value == v0)
    c.oblige("frame/only-waiter-changes", H.heap_eq_except(c, snap, waiter, st(waiter) if not c.symbolic else z3.Select(H.heap(c).st, waiter.ref)), kind="frame")
    # (whether the expired waiter is swept through _garbage_collect or unlinked on the spot is the implementation's business: the statement is about permits, wake-ups and order)
    c.oblige("post/at-most-one-sweep", len(calls) <= 1)
    c.oblige("inv/preserved", inv(c, s, g), kind="inv-preserve")


@unit("C33", "env.cancel", [], note="environment action: the user cancels any PENDING future it was handed")
def u_env_cancel(c):
    s, g = mk_sem(c)
    w = H.pre_future(c, "victim")
    c.assume(inv(c, s, g))
    c.assume(st(w) == PENDING)
    if c.symbolic:
        w.cancel()
    else:
        w.cancel()
    c.cover("env.cancel")
    c.oblige("inv/preserved", inv(c, s, g), kind="inv-preserve")


@unit("C33", "BoundedSemaphore.release", [(M, "BoundedSemaphore.release")])
def u_brelease(c):
    s, g = mk_sem(c, "BoundedSemaphore")
    c.assume(inv(c, s, g))
    v0, snap, W = s._value, H.HeapSnap(c), H.snapshot_seq(s._waiters)
    import tornado.locks as L
    called = []
    f = c.fn(M, "BoundedSemaphore.release")
    with env(c), c.patched((L.Semaphore, "release", lambda self_: called.append(1))):
        out = c.call(f, s)
    c.only_raises(out, (ValueError,))
    over = v0 >= g["initial"]
    if out.raised:
        c.cover("brelease/raises")
        c.oblige("raises/ValueError-only-when-over-released", over)
        c.oblige("frame/raising-path-changes-nothing", And(s._value == v0, H.heap_eq(c, snap), len(called) == 0), kind="frame")
    else:
        c.cover("brelease/normal")
        c.oblige("post/not-over-released", Not(over))
        c.oblige("post/delegates-to-Semaphore.release-once", len(called) == 1)


@unit("C33", "Lock", [(M, "Lock.__init__"), (M, "Lock.acquire"), (M, "Lock.release")])
def u_lock(c):
    """Lock is a BoundedSemaphore(1): acquire/release delegate; release of an unlocked lock raises
    RuntimeError."""
    import tornado.locks as L
    lk = L.Lock.__new__(L.Lock)
    s, g = mk_sem(c, "BoundedSemaphore")
    c.assume(inv(c, s, g))
    c.assume(g["initial"] == 1)
    lk._block = s
    v0 = s._value
    op = c.choose("op", ["release", "acquire", "init"])
    if op == "init":
        lk2 = L.Lock.__new__(L.Lock)
        out = c.call(c.fn(M, "Lock.__init__"), lk2)
        c.only_raises(out, ())
        c.cover("lock/init")
        c.oblige("init/bounded-semaphore-of-one", isinstance(lk2._block, L.BoundedSemaphore)
                 and lk2._block._value == 1 and lk2._block._initial_value == 1 and len(lk2._block._waiters) == 0)
        return
    if op == "acquire":
        seen = []
        with c.patched((L.BoundedSemaphore, "acquire", lambda self_, timeout=None: seen.append((self_, timeout)) or "fut")):
            out = c.call(c.fn(M, "Lock.acquire"), lk, 5)
        c.only_raises(out, ())
        c.cover("lock/acquire")
        c.oblige("acquire/delegates-with-timeout", out.returned and out.value == "fut" and seen == [(s, 5)])
        return
    # release: the real BoundedSemaphore.release body runs (inlined) with Semaphore.release stubbed
    called = []
    with env(c), c.patched((L.Semaphore, "release", lambda self_: called.append(1))):
        out = c.call(c.fn(M, "Lock.release"), lk)
    c.only_raises(out, (RuntimeError,))
    if out.raised:
        c.cover("lock/release-raises")
        c.oblige("raises/RuntimeError-iff-unlocked", And(v0 >= 1, len(called) == 0))
    else:
        c.cover("lock/release")
        c.oblige("post/was-locked", And(v0 < 1, len(called) == 1))


@unit("C33", "_garbage_collect", [(M, "_TimeoutGarbageCollector._garbage_collect")],
      bounded="waiter queue length <= 3 (future states and the timeout counter symbolic)")
def u_gc(c):
    """Purge of timed-out waiters: keeps exactly the not-done waiters, in arrival order."""
    s, g = mk_sem(c)
    c.assume(inv(c, s, g))
    W, snap, t0, v0 = list(s._waiters), H.HeapSnap(c), s._timeouts, s._value
    out = c.call(c.fn(M, "_TimeoutGarbageCollector._garbage_collect"), s)
    c.only_raises(out, ())
    if out.raised:
        return
    c.cover("gc/normal")
    now = list(s._waiters)
    if t0 + 1 > 100:
        keep = [w for w in W if snap.st_of(w) == PENDING]       # forks on symbolic states
        c.oblige("post/purge-keeps-live-waiters-in-arrival-order",
                 len(now) == len(keep) and all(a is b for a, b in zip(now, keep)))
        c.oblige("post/counter-reset", s._timeouts == 0)
    else:
        c.oblige("post/no-purge-queue-unchanged", len(now) == len(W) and all(a is b for a, b in zip(now, W)))
        c.oblige("post/counter-incremented", s._timeouts == t0 + 1)
    c.oblige("frame/futures-and-permits-unchanged", And(H.heap_eq(c, snap), s._value == v0), kind="frame")
    c.oblige("inv/preserved", inv(c, s, g), kind="inv-preserve")


# ---------------------------------------------------------------------------------------------
# Bounded run-time stand-in (history level): the real Semaphore / BoundedSemaphore / Lock on a
# virtual-time loop, every operation checked against the statement's user-visible reading.
def standin(tier, seed):
    import asyncio
    import datetime
    from pyvc.standin import vloop, hist
    import tornado.locks as L
    import tornado.util

    OPS = ["acq", "acq_t1", "acq_t0", "rel", "tick", "adv1", "cancel0", "cancel_last"]

    def run(seq, kind="Semaphore", initial=1):
        async def main(v):
            sem = getattr(L, kind)(initial) if kind != "Lock" else L.Lock()
            init = 1 if kind == "Lock" else initial
            permits = init
            waiters = []      # user-visible futures in arrival order: [fut, deadline|None, we_cancelled]
            nontriv = False
            for op in seq:
                if op.startswith("acq"):
                    t = None if op == "acq" else (v.now + 1 if op == "acq_t1" else datetime.timedelta(0))
                    f = sem.acquire(t)
                    f = asyncio.ensure_future(f) if not asyncio.isfuture(f) else f
                    dl = None if t is None else (v.now + 1 if op == "acq_t1" else v.now)
                    if permits > 0:
                        if not (f.done() and not f.cancelled() and f.exception() is None):
                            return "acquire with a free permit did not grant immediately", nontriv
                        permits -= 1
                    else:
                        if f.done():
                            return "acquire without a free permit completed immediately: %r" % f, nontriv
                        waiters.append([f, dl, False])
                elif op == "rel":
                    live = [w for w in waiters if not w[0].done()]
                    before = permits
                    try:
                        sem.release()
                    except (ValueError, RuntimeError) as e:
                        over = (kind != "Semaphore") and permits >= init and not live
                        if not over:
                            return "release raised %r although not over-released" % e, nontriv
                        continue
                    if kind != "Semaphore" and permits >= init and not live:
                        return "release beyond the initial value did not raise", nontriv
                    if live:
                        nontriv = True
                        g = live[0][0]
                        if not (g.done() and not g.cancelled() and g.exception() is None):
                            return "release with live waiters did not grant the first live waiter (arrival order)", nontriv
                        for w in live[1:]:
                            if w[0].done():
                                return "release completed more than one waiter", nontriv
                    else:
                        permits += 1
                elif op == "tick":
                    await v.tick()
                elif op == "adv1":
                    v.advance(1.5)
                elif op == "cancel0" or op == "cancel_last":
                    live = [w for w in waiters if not w[0].done()]
                    if live:
                        w = live[0] if op == "cancel0" else live[-1]
                        w[0].cancel()
                        w[2] = True
                # after every step: waiters that completed outside release() must be timed out /
                # cancelled, never granted; granted-and-unreleased never exceeds the initial value
                for w in waiters:
                    f = w[0]
                    if f.done() and not w[2] and not f.cancelled() and f.exception() is None and not getattr(f, "_seen_grant", False):
                        f._seen_grant = True
                    if f.done() and not f.cancelled() and f.exception() is not None:
                        if not isinstance(f.exception(), tornado.util.TimeoutError):
                            return "waiter failed with %r" % f.exception(), nontriv
                        if w[1] is None or v.now < w[1]:
                            return "waiter timed out before its deadline / without a timeout", nontriv
                if sem._value if kind != "Lock" else sem._block._value:
                    pass
                val = sem._block._value if kind == "Lock" else sem._value
                if val != permits:
                    return "free permits %r differ from the reference count %r (grant/release accounting)" % (val, permits), nontriv
                if permits > 0 and any(not w[0].done() for w in waiters):
                    return "a permit is idle while a live waiter waits", nontriv
                if permits > init and kind != "Semaphore":
                    return "more permits than the initial value", nontriv
            await v.settle()
            # timed waiters whose deadline passed must have been resolved by now
            for w in waiters:
                if not w[0].done() and w[1] is not None and v.now >= w[1]:
                    return "timed-out waiter still pending after its deadline", nontriv
            return None, nontriv
        fail, nontriv = vloop.run_history(main)
        return fail, nontriv, (kind, initial, seq)

    budget = 12 if tier == "quick" else 240
    res = None
    for kind, initial in (("Semaphore", 1), ("BoundedSemaphore", 1), ("Lock", 1), ("Semaphore", 2), ("Semaphore", 0)):
        r = hist.explore(OPS, lambda s, k=kind, i=initial: run(s, k, i), 3 if tier == "quick" else 5, 9,
                         budget / 5.0, seed)
        if res is None:
            res = r
        else:
            for k in ("evaluations", "distinct_nontrivial"):
                res[k] += r[k]
            res["failures"] += r["failures"]
            res["samples"] += r["samples"][:1]
        if res["failures"]:
            break
    res["rule"] = ("op sequences over %s on the real Semaphore/BoundedSemaphore/Lock with a virtual-time loop (one loop iteration per "
                   "'tick'): exhaustive to depth %d, seeded random to length 9; non-trivial = a release met a live waiter" % (OPS, 3 if tier == "quick" else 5))
    return res
