"""C11 — IOStream reads return exactly the incoming bytes, in order, per request (tornado/iostream.py, read side).  DESIGN §6.2 C11.

Ghost state: `delivered` = every byte the transport handed over so far, `consumed` = every byte returned to callers so far.
Class invariant (normal mode):    consumed ++ view(_read_buffer) == delivered   and   _read_buffer_size == len(view)
The read buffer is a bytearray used through six operations (len, truth, +=, find, memoryview(..)[:k].tobytes(), del [:k]); in the proof units it is replaced by
`RBuf`, the same six operations on an abstract byte string (A-BYTEARRAY); the scratch buffer handed to read_from_fd is a `Chunk` the transport double fills.
P (symbolic byte strings and sizes of unbounded length):
  _consume(loc)            returns view[:loc], leaves view[loc:], size -= loc: the invariant is kept with consumed' = consumed ++ result
  _find_read_pos           = the specification function `satisfy`: fixed size n: n once n bytes are there; partial: min(n, size) once anything is there; delimiter d: first
                             index of d + len(d); UnsatisfiableReadError exactly when that exceeds max_bytes, or d is absent and more than max_bytes are buffered; else None
  _check_max_bytes         raises exactly when max_bytes is set and exceeded
  _read_to_buffer          appends exactly what the transport returned (would-block / EOF / data / reset / other error), keeps the invariant, enforces max_buffer_size
  _read_to_buffer_loop     [loop invariant] whatever it returns is satisfy(...) of the buffer as it is then; the invariant holds on every exit: no byte is dropped between the
                           transport and the buffer, and the doubling heuristic never causes a satisfied read to be missed (the final rescan)
  _read_from_buffer / _finish_read   the pending future gets exactly the consumed bytes, the request is cleared
B: read programs (fixed, partial, read_into, delimiter / regex with and without max_bytes, until close) over random streams x arrival patterns on the real stream.
"""
import z3

from pyvc.unit import unit
from pyvc.proxies import And, Or, Not, Implies, SBool, SInt, SStr
from pyvc.rewrite import LoopSpec
from pyvc import core
from pyvc import heap as H

LEVEL = "other"
STANDIN_ALWAYS_THOROUGH = True      # its large bound takes seconds: used at both tiers
EXPLANATION = ("MIXED. Proved by SMT over byte strings of unbounded length: the read side's representation invariant consumed ++ buffer == delivered through _consume, _read_to_buffer and the "
               "_read_to_buffer_loop (loop invariant); _find_read_pos equal to the specification function of each kind of request incl. the max_bytes refusals; _finish_read resolving the future with "
               "exactly the consumed bytes. The bytearray and the scratch buffer are replaced by contract stubs (their six operations on an abstract byte string). read_into's buffer swap, regex "
               "reads and the entry points are covered by the bounded part: read programs x arrival patterns on the real stream over an in-memory transport.")
TRUSTED = ["bytearray / memoryview semantics of the six operations used (A-BYTEARRAY): replaced by the RBuf / Chunk stubs in the proof units, exercised for real by the stand-in",
           "read_from_fd external: returns None, 0, or n > 0 after writing the next n stream bytes at the start of the buffer it was given; or raises OSError", "re (regex reads)", "asyncio.Future model"]
ASSUMPTIONS = ["bytes as z3 strings over code points <= 0xFF", "A-LOOP", "first occurrence is what bytearray.find returns (the specification function uses the same primitive)"]
M = "tornado.iostream"


class _Slice:
    def __init__(self, data):
        self.data = data

    def tobytes(self):
        return self.data


class _MV:
    def __init__(self, owner):
        self.owner = owner

    def __getitem__(self, k):
        assert isinstance(k, slice) and k.step is None
        return self.owner._slice(k)


class RBuf:
    """the read buffer under its contract: an abstract byte string"""
    def __init__(self, c, view):
        self.c, self.view = c, view

    def __pyvc_len__(self):
        return SInt(z3.Length(self.view.t)) if isinstance(self.view, SStr) else len(self.view)

    def __len__(self):
        return len(self.view)

    def __bool__(self):
        return bool(self.__pyvc_len__() > 0)

    def find(self, d, start=0):
        if isinstance(self.view, SStr) or isinstance(d, SStr) or isinstance(start, SInt):
            v = self.view if isinstance(self.view, SStr) else SStr(z3.StringVal(self.view.decode("latin1")), True)
            dd = d.t if isinstance(d, SStr) else z3.StringVal(bytes(d).decode("latin1"))
            return SInt(z3.IndexOf(v.t, dd, start.t if isinstance(start, SInt) else start))
        return bytes(self.view).find(bytes(d), start)

    def __iadd__(self, data):
        if isinstance(data, _Slice):
            data = data.data
        self.view = self.view + (data if isinstance(data, SStr) else bytes(data))
        return self

    def __pyvc_memoryview__(self):
        return _MV(self)

    def _slice(self, k):
        return _Slice(self.view[k])

    def __delitem__(self, k):
        assert isinstance(k, slice) and k.start is None and k.step is None
        self.view = self.view[k.stop:]


class Chunk:
    """the scratch bytearray(read_chunk_size) handed to read_from_fd"""
    def __init__(self, n):
        self.n, self.data = n, None

    def __pyvc_memoryview__(self):
        return _MV(self)

    def _slice(self, k):
        return _Slice(self.data[k])


def mk(c):
    """a BaseIOStream in normal read mode satisfying the invariant; ghost g = {delivered, consumed}"""
    import tornado.iostream as IO
    s = IO.BaseIOStream.__new__(IO.BaseIOStream)
    view = c.bytes("view")
    consumed = c.bytes("consumed")
    s._read_buffer = RBuf(c, view) if isinstance(view, SStr) else bytearray(view)        # (replay / cross-check run the unmodified function on a real bytearray)
    s._read_buffer_size = SInt(z3.Length(view.t)) if isinstance(view, SStr) else len(view)
    s._user_read_buffer = False
    s._after_user_read_buffer = None
    s._read_bytes = s._read_delimiter = s._read_regex = s._read_max_bytes = None
    s._read_partial = False
    s._read_future = None
    s.read_chunk_size = 65536
    s.max_buffer_size = 104857600
    s.error = None
    s.calls = []
    s._closed_flag = False
    s.close = lambda exc_info=False: (s.calls.append(("close", exc_info)), setattr(s, "_closed_flag", True))[0]
    s.closed = lambda: s._closed_flag
    s._maybe_add_error_listener = lambda: s.calls.append(("maybe_add_error_listener",))
    g = {"delivered": consumed + view, "consumed": consumed}
    return s, g


def bview(s):
    b = s._read_buffer
    return b.view if isinstance(b, RBuf) else bytes(b)


def inv(c, s, g):
    v = bview(s)
    n = SInt(z3.Length(v.t)) if isinstance(v, SStr) else len(v)
    return And(g["consumed"] + v == g["delivered"], s._read_buffer_size == n)


@unit("C11", "BaseIOStream._consume", [(M, "BaseIOStream._consume")])
def u_consume(c):
    s, g = mk(c)
    view0 = bview(s)
    loc = c.int("loc")
    if c.symbolic:
        c.assume((loc >= 0) & (loc <= s._read_buffer_size))
    else:
        loc = loc % (len(view0) + 1)
    out = c.call(c.fn(M, "BaseIOStream._consume"), s, loc)
    c.only_raises(out, ())
    c.cover("consume")
    if out.raised:
        return
    r = out.value
    c.oblige("post/returns-exactly-the-first-loc-buffered-bytes", r == view0[0:loc])
    g["consumed"] = g["consumed"] + r
    c.oblige("post/invariant-kept: consumed ++ buffer == delivered, size == len(buffer)", inv(c, s, g))
    c.oblige("post/the-rest-stays-in-order", bview(s) == view0[loc:])


def satisfy(c, view, size, kind, n=None, partial=None, delim=None, max_bytes=None):
    """specification: ('pos', p) / ('none',) / ('unsatisfiable',) as z3-friendly conditions: returns dict of SBool conditions and the position term"""
    if kind == "bytes":
        ready = Or(size >= n, And(partial, size > 0))
        pos = SInt(z3.If(n.t <= size.t, n.t, size.t)) if isinstance(n, SInt) or isinstance(size, SInt) else min(n, size)
        return {"pos": ready, "unsat": False, "none": Not(ready)}, pos
    loc = SInt(z3.IndexOf(view.t, delim.t, 0)) if isinstance(view, SStr) else view.find(delim)
    dl = SInt(z3.Length(delim.t)) if isinstance(delim, SStr) else len(delim)
    found = And(size > 0, loc >= 0)
    end = loc + dl
    if max_bytes is None:
        return {"pos": found, "unsat": False, "none": Not(found)}, end
    return {"pos": And(found, end <= max_bytes), "unsat": Or(And(found, end > max_bytes), And(Not(found), size > max_bytes)), "none": And(Not(found), size <= max_bytes)}, end


@unit("C11", "BaseIOStream._find_read_pos", [(M, "BaseIOStream._find_read_pos"), (M, "BaseIOStream._check_max_bytes")], z3_ms=6000, cvc5_ms=20000)
def u_find(c):
    import tornado.iostream as IO
    c.fresh_feasibility = True
    s, g = mk(c)
    kind = c.choose("request", ["bytes", "bytes-partial", "delimiter", "delimiter-max_bytes", "nothing-pending"])
    view, size = bview(s), s._read_buffer_size
    n = partial = delim = mb = None
    if kind.startswith("bytes"):
        n = c.int("num_bytes")
        c.assume(n >= 0) if c.symbolic else None
        n = abs(n) if not c.symbolic else n
        partial = kind == "bytes-partial"
        s._read_bytes, s._read_partial = n, partial
    elif kind.startswith("delimiter"):
        delim = c.bytes("delimiter")
        if c.symbolic:
            c.assume_z3(z3.Length(delim.t) >= 1)
        elif not delim:
            delim = b"\n"
        s._read_delimiter = delim
        if kind == "delimiter-max_bytes":
            mb = c.int("max_bytes")
            if c.symbolic:
                c.assume(mb >= 0)
            else:
                mb = abs(mb) % 40
            s._read_max_bytes = mb
    out = c.call(c.fn(M, "BaseIOStream._find_read_pos"), s)
    c.only_raises(out, (IO.UnsatisfiableReadError,))
    c.cover("find/%s" % kind)
    if kind == "nothing-pending":
        c.oblige("post/no-request-no-position", out.returned and out.value is None)
        return
    conds, pos = satisfy(c, view, size, "bytes" if kind.startswith("bytes") else "delimiter", n=n, partial=partial, delim=delim, max_bytes=mb)
    if out.raised:
        c.oblige("post/refused-exactly-when-the-delimiter-cannot-come-within-max_bytes", conds["unsat"])
    elif out.value is None:
        c.oblige("post/no-position-exactly-when-the-request-cannot-be-satisfied-yet", conds["none"])
    else:
        c.oblige("post/the-position-is-the-specification's (first match end / n / what is there)", And(conds["pos"], out.value == pos))
        c.oblige("post/never-beyond-the-buffer-nor-beyond-max_bytes", And(out.value <= size, out.value >= 0, True if mb is None else out.value <= mb))
    c.oblige("frame/the-buffer-is-not-touched", And(bview(s) == view, s._read_buffer_size == size), kind="frame")


@unit("C11", "BaseIOStream._read_to_buffer", [(M, "BaseIOStream._read_to_buffer")])
def u_read_to_buffer(c):
    import errno
    import tornado.iostream as IO
    s, g = mk(c)
    c.assume(inv(c, s, g))
    view0, size0 = bview(s), s._read_buffer_size
    outcome = c.choose("transport", ["would-block", "eof", "data", "connection-reset", "other-error"])
    chunk = c.bytes("chunk")
    if c.symbolic:
        c.assume_z3(z3.And(z3.Length(chunk.t) >= 1, z3.Length(chunk.t) <= s.read_chunk_size))
    elif not chunk:
        chunk = b"x"
    limit = c.int("max_buffer_size")
    if c.symbolic:
        c.assume((limit >= 1) & (size0 <= limit))
    else:
        limit = len(view0) + abs(limit) % 8 + 1
        chunk = chunk[:s.read_chunk_size]
    s.max_buffer_size = limit
    chunks = []
    c.bytearray_factory = lambda n: chunks.append(Chunk(n)) or chunks[-1]

    def read_from_fd(buf):
        s.calls.append(("read_from_fd",))
        if outcome == "would-block":
            return None
        if outcome == "eof":
            return 0
        if outcome == "connection-reset":
            raise ConnectionResetError(errno.ECONNRESET, "reset")
        if outcome == "other-error":
            raise OSError(errno.EIO, "io")
        if isinstance(buf, Chunk):
            buf.data = chunk
        else:
            buf[:len(chunk)] = chunk
        g["delivered"] = g["delivered"] + chunk
        return SInt(z3.Length(chunk.t)) if isinstance(chunk, SStr) else len(chunk)
    s.read_from_fd = read_from_fd
    s._is_connreset = lambda e: isinstance(e, ConnectionResetError)
    try:
        out = c.call(c.fn(M, "BaseIOStream._read_to_buffer"), s)
    finally:
        c.bytearray_factory = None
    c.only_raises(out, (IO.StreamBufferFullError, OSError))
    c.cover("read_to_buffer/%s" % outcome)
    closes = [x for x in s.calls if x[0] == "close"]
    c.oblige("post/one-read-from-the-transport-with-a-chunk-sized-scratch-buffer", [x for x in s.calls if x[0] == "read_from_fd"] == [("read_from_fd",)] and (not c.symbolic or (len(chunks) == 1 and chunks[0].n == s.read_chunk_size)))
    c.oblige("post/invariant-kept: nothing-lost-duplicated-or-reordered", inv(c, s, g))
    if outcome == "data":
        n = SInt(z3.Length(chunk.t)) if isinstance(chunk, SStr) else len(chunk)
        c.oblige("post/exactly-the-transport's-bytes-are-appended", And(bview(s) == view0 + chunk, s._read_buffer_size == size0 + n))
        if out.raised:
            c.oblige("post/over-the-buffer-limit: closed-and-StreamBufferFullError", And(isinstance(out.exc, IO.StreamBufferFullError), len(closes) == 1, size0 + n > limit))
        else:
            c.oblige("post/within-the-limit: returns-the-count-and-stays-open", And(out.value == n, len(closes) == 0, size0 + n <= limit))
    else:
        c.oblige("post/nothing-is-appended", And(bview(s) == view0, s._read_buffer_size == size0))
        if outcome == "would-block":
            c.oblige("post/would-block: 0-and-still-open", out.returned and out.value == 0 and closes == [])
        elif outcome == "eof":
            c.oblige("post/eof: closed-once-returns-0", out.returned and out.value == 0 and len(closes) == 1)
        elif outcome == "connection-reset":
            c.oblige("post/reset: closed-with-the-error-returns-None", out.returned and out.value is None and len(closes) == 1 and closes[0][1] is not False)
        else:
            c.oblige("post/error: closed-with-the-error-and-raised", out.raised and isinstance(out.exc, OSError) and len(closes) == 1)


@unit("C11", "BaseIOStream._read_to_buffer_loop", [(M, "BaseIOStream._read_to_buffer_loop")], z3_ms=6000, cvc5_ms=20000)
def u_loop(c):
    """callees under contract: _read_to_buffer appends a chunk (or closes / blocks), _find_read_pos = F(buffer) for an arbitrary but fixed function F of the buffer's content"""
    import tornado.iostream as IO
    s, g = mk(c)
    c.assume(inv(c, s, g))
    mode = c.choose("request", ["fixed-size", "max_bytes", "open-ended", "none"])
    n = c.int("target")
    if c.symbolic:
        c.assume(n >= 0)
    else:
        n = abs(n) % 50
    if mode == "fixed-size":
        s._read_bytes = n
    elif mode == "max_bytes":
        s._read_max_bytes = n
        s._read_delimiter = b"\n"
    elif mode == "open-ended":
        s._read_delimiter = b"\n"
    s.reading = lambda: mode != "none"
    delivered0 = g["delivered"]
    F = z3.Function("find_read_pos_of", z3.StringSort(), z3.IntSort())      # -1 stands for None
    found = []

    def find_read_pos(*a, **kw):
        if a or kw:
            raise core.Unsupported("_find_read_pos is called with arguments its contract (the whole buffer is searched) does not cover: the loop is decided by the stand-in only")
        v = bview(s)
        if isinstance(v, SStr):
            r = SInt(F(v.t))
            c.assume(r >= -1)
            if c.choose("find_read_pos", ["a-position", "None"]) == "None":
                c.assume(r == -1)
                found.append((v, None))
                return None
            c.assume(r >= 0)
            found.append((v, r))
            return r
        r = v.find(b"\n")
        r = None if r < 0 else r + 1
        found.append((v, r))
        return r
    s._find_read_pos = find_read_pos

    def read_to_buffer():
        if s._closed_flag:
            raise AssertionError("read after close")
        what = c.choose("_read_to_buffer", ["data", "would-block", "eof"])
        if what == "would-block":
            return 0
        if what == "eof":
            s.close()
            return 0
        chunk = c.bytes("chunk")
        if c.symbolic:
            c.assume_z3(z3.Length(chunk.t) >= 1)
        elif not chunk:
            chunk = b"\n"
        if isinstance(s._read_buffer, RBuf):
            s._read_buffer.view = s._read_buffer.view + chunk
        else:
            s._read_buffer += chunk
        k = SInt(z3.Length(chunk.t)) if isinstance(chunk, SStr) else len(chunk)
        s._read_buffer_size = s._read_buffer_size + k
        g["delivered"] = g["delivered"] + chunk
        return k
    s._read_to_buffer = read_to_buffer
    loops = {}
    if c.symbolic:
        def linv(c_, L, old):
            return And(inv(c, s, g), SBool(z3.PrefixOf(delivered0.t, g["delivered"].t)))

        def fields(c_, L):
            s._read_buffer.view = c.bytes("h_view")
            s._read_buffer_size = c.int("h_size")
            g["delivered"] = c.bytes("h_delivered")
            s._closed_flag = c.bool("h_closed")
        loops = {0: LoopSpec(linv, fields=fields)}
    out = c.call(c.fn(M, "BaseIOStream._read_to_buffer_loop", loops=loops), s)
    c.only_raises(out, ())
    c.cover("loop/%s" % mode)
    if out.raised:
        return
    c.oblige("post/invariant-kept-on-exit: every-byte-the-transport-delivered-is-in-the-buffer-in-order", inv(c, s, g))
    c.oblige("post/nothing-delivered-earlier-is-lost", SBool(z3.PrefixOf(delivered0.t, g["delivered"].t)) if c.symbolic else g["delivered"].startswith(delivered0))
    last_view, last_r = found[-1] if found else (None, "never")
    c.oblige("post/the-result-is-_find_read_pos-of-the-buffer-as-it-is-on-exit (a satisfiable read is never missed)",
             last_r != "never" and last_view == bview(s) and ((out.value is None and last_r is None) or (out.value is not None and last_r is not None and out.value == last_r)))


@unit("C11", "BaseIOStream._read_from_buffer+_finish_read", [(M, "BaseIOStream._read_from_buffer"), (M, "BaseIOStream._finish_read")])
def u_finish(c):
    s, g = mk(c)
    c.assume(inv(c, s, g))
    view0 = bview(s)
    pos = c.int("pos")
    if c.symbolic:
        c.assume((pos >= 0) & (pos <= s._read_buffer_size))
    else:
        pos = pos % (len(view0) + 1)
    has_future = c.choose("pending-future", [True, False])
    got = []

    class Fut:
        def done(self):
            return False

        def set_result(self, v):
            got.append(v)

        def cancelled(self):
            return False
    if has_future:
        s._read_future = Fut()
    s._read_bytes, s._read_partial, s._read_delimiter = 5, True, b"x"
    real_consume = c.fn(M, "BaseIOStream._consume")
    s._consume = lambda loc: real_consume(s, loc)
    s._finish_read = lambda size: c.fn(M, "BaseIOStream._finish_read")(s, size)
    out = c.call(c.fn(M, "BaseIOStream._read_from_buffer"), s, pos)
    c.only_raises(out, ())
    c.cover("finish/%s" % has_future)
    if out.raised:
        return
    c.oblige("post/the-request-is-cleared", s._read_bytes is None and s._read_delimiter is None and s._read_regex is None and s._read_partial is False and s._read_future is None)
    if has_future:
        c.oblige("post/the-future-gets-exactly-the-first-pos-bytes-once", And(len(got) == 1, got[0] == view0[0:pos]) if got else False)
        g["consumed"] = g["consumed"] + got[0]
    else:
        g["consumed"] = g["consumed"] + view0[0:pos]
    c.oblige("post/invariant-kept", inv(c, s, g))
    c.oblige("post/idle-streams-listen-for-the-peer's-close", ("maybe_add_error_listener",) in s.calls)


@unit("C11", "BaseIOStream._try_inline_read", [(M, "BaseIOStream._try_inline_read")])
def u_try_inline(c):
    """callees under contract: _find_read_pos (a position or None, or UnsatisfiableReadError), _read_to_buffer_loop (likewise), _read_from_buffer(pos), _check_closed, _add_io_state"""
    import tornado.iostream as IO
    s, g = mk(c)
    first = c.choose("_find_read_pos", ["a-position", "None", "UnsatisfiableReadError"])
    closed = c.choose("stream", ["open", "closed"])
    loop = c.choose("_read_to_buffer_loop", ["a-position", "None", "UnsatisfiableReadError", "closes-the-stream-and-None"])
    pos1, pos2 = c.int("pos1"), c.int("pos2")
    s._closed_flag = closed == "closed"
    log = []

    def find():
        log.append("find")
        if first == "UnsatisfiableReadError":
            raise IO.UnsatisfiableReadError("x")
        return pos1 if first == "a-position" else None

    def rloop():
        log.append("loop")
        if loop == "UnsatisfiableReadError":
            raise IO.UnsatisfiableReadError("x")
        if loop.startswith("closes"):
            s._closed_flag = True
            return None
        return pos2 if loop == "a-position" else None
    s._find_read_pos, s._read_to_buffer_loop = find, rloop
    s._read_from_buffer = lambda pos: log.append(("read_from_buffer", pos))
    s._add_io_state = lambda st: log.append(("add_io_state", st))
    s._check_closed = lambda: c.fn(M, "BaseIOStream._check_closed")(s)
    out = c.call(c.fn(M, "BaseIOStream._try_inline_read"), s)
    c.only_raises(out, (IO.UnsatisfiableReadError, IO.StreamClosedError))
    c.cover("inline/%s/%s" % (first, closed))
    delivered = [x for x in log if isinstance(x, tuple) and x[0] == "read_from_buffer"]
    listening = [x for x in log if isinstance(x, tuple) and x[0] == "add_io_state"]
    if first == "a-position":
        c.oblige("post/buffered-data-that-satisfies-the-request-is-delivered-at-once-even-on-a-closed-stream", out.returned and len(delivered) == 1 and delivered[0][1] is pos1 and "loop" not in log and listening == [])
    elif first == "UnsatisfiableReadError":
        c.oblige("post/an-unsatisfiable-request-is-reported-to-the-caller", out.raised and isinstance(out.exc, IO.UnsatisfiableReadError) and delivered == [])
    elif closed == "closed":
        c.oblige("post/a-closed-stream-that-cannot-satisfy-the-request-raises-StreamClosedError-without-touching-the-transport", out.raised and isinstance(out.exc, IO.StreamClosedError) and "loop" not in log and delivered == [])
    elif loop == "a-position":
        c.oblige("post/what-the-transport-has-ready-is-read-and-delivered", out.returned and len(delivered) == 1 and delivered[0][1] is pos2 and listening == [])
    elif loop == "UnsatisfiableReadError":
        c.oblige("post/an-unsatisfiable-request-is-reported-to-the-caller", out.raised and isinstance(out.exc, IO.UnsatisfiableReadError) and delivered == [])
    elif loop == "None":
        c.oblige("post/otherwise-the-stream-waits-for-read-events", out.returned and delivered == [] and len(listening) == 1 and listening[0][1] == IO.ioloop.IOLoop.READ)
    else:
        c.oblige("post/a-stream-closed-while-reading-does-not-register-for-events", out.returned and delivered == [] and listening == [])


@unit("C11", "read-entry-points", [(M, "BaseIOStream.read_bytes"), (M, "BaseIOStream.read_until"), (M, "BaseIOStream.read_until_regex"), (M, "BaseIOStream.read_until_close"), (M, "BaseIOStream._start_read")])
def u_entry(c):
    """each entry point registers exactly its own kind of request, hands back the one pending future, and tries to satisfy it at once; a second read while one is pending is refused"""
    import re as _re
    import tornado.iostream as IO
    s, g = mk(c)
    which = c.choose("entry-point", ["read_bytes", "read_bytes-partial", "read_until", "read_until-max_bytes", "read_until_regex", "read_until_close", "read_until_close-on-a-closed-stream"])
    inline = c.choose("_try_inline_read", ["returns", "UnsatisfiableReadError", "StreamClosedError"])
    already = c.choose("another-read-pending", [False, True])
    log = []

    def try_inline():
        log.append(("try_inline", s._read_bytes, s._read_partial, s._read_delimiter, s._read_regex, s._read_max_bytes, getattr(s, "_read_until_close", False)))
        if inline == "UnsatisfiableReadError":
            raise IO.UnsatisfiableReadError("x")
        if inline == "StreamClosedError":
            raise IO.StreamClosedError()
    s._try_inline_read = try_inline
    s._start_read = lambda: c.fn(M, "BaseIOStream._start_read")(s)
    s._check_closed = lambda: c.fn(M, "BaseIOStream._check_closed")(s)
    s._finish_read = lambda size: log.append(("finish_read", size))
    s._read_until_close = False
    if which.endswith("closed-stream"):
        s._closed_flag = True
    if already:
        s._read_future = object()
    n = c.choose("num_bytes", [0, 1, 4096])          # (read_bytes asserts a numbers.Integral: a concrete count; the arithmetic on it is _find_read_pos's, proved symbolically)
    name = which.split("-")[0]
    args = {"read_bytes": (n,), "read_bytes-partial": (n, True), "read_until": (b"\r\n",), "read_until-max_bytes": (b"\r\n", 17), "read_until_regex": (rb"\r?\n", 9), "read_until_close": (),
            "read_until_close-on-a-closed-stream": ()}[which]
    out = c.call(c.fn(M, "BaseIOStream." + name), s, *args)
    c.only_raises(out, (AssertionError, IO.StreamClosedError, IO.UnsatisfiableReadError))
    c.cover("entry/%s" % which)
    if already:
        c.oblige("post/a-second-read-while-one-is-pending-is-refused-and-changes-nothing", out.raised and log == [] and s._read_bytes is None and s._read_delimiter is None and s._read_regex is None)
        return
    if which.endswith("closed-stream"):
        c.oblige("post/read_until_close-on-a-closed-stream-delivers-what-is-buffered", out.returned and log == [("finish_read", s._read_buffer_size)] and out.value is s._read_future)
        return
    want = {"read_bytes": (n, False, None, None, None, False), "read_bytes-partial": (n, True, None, None, None, False), "read_until": (None, False, b"\r\n", None, None, False),
            "read_until-max_bytes": (None, False, b"\r\n", None, 17, False), "read_until_regex": (None, False, None, "regex", 9, False), "read_until_close": (None, False, None, None, None, True)}[which]
    ok = len(log) == 1 and log[0][0] == "try_inline"
    if ok:
        got = log[0][1:]
        ok = (got[0] is want[0] or got[0] == want[0]) and got[1] == want[1] and got[2] == want[2] and got[4] == want[4] and got[5] == want[5] and ((got[3] is None) == (want[3] is None))
        if want[3] is not None and got[3] is not None:
            ok = ok and got[3].pattern == rb"\r?\n"
    c.oblige("post/exactly-this-kind-of-request-is-registered-before-the-inline-attempt", ok)
    if inline == "returns":
        c.oblige("post/the-one-pending-future-is-returned", out.returned and out.value is s._read_future and s._read_future is not None)
    elif inline == "UnsatisfiableReadError" and name in ("read_until", "read_until_regex"):
        c.oblige("post/a-delimiter-that-cannot-come-within-max_bytes-closes-the-stream-and-the-future-is-still-returned", out.returned and len([x for x in s.calls if x[0] == "close"]) == 1 and out.value is not None)
    else:
        c.oblige("post/other-failures-reach-the-caller", out.raised)


class UBuf:
    """the caller's bytearray handed to read_into, under its contract: fixed length, a prefix of it filled so far (abstract byte string `view` of exactly that length)"""
    def __init__(self, c, view):
        self.c, self.view = c, view

    def __pyvc_len__(self):
        return SInt(z3.Length(self.view.t))

    def __setitem__(self, k, data):
        assert isinstance(k, slice) and k.step is None and k.start is None
        d = data.data if isinstance(data, _Slice) else data
        n = SInt(z3.Length(d.t)) if isinstance(d, SStr) else len(d)
        if k.stop is None:
            self.c.oblige("requires/whole-buffer-assignment-keeps-the-length", n == self.__pyvc_len__(), kind="requires")
            self.view = d
        else:
            self.c.oblige("requires/slice-assignment-keeps-the-length", And(n == k.stop, k.stop <= self.__pyvc_len__()), kind="requires")
            self.view = d + self.view[k.stop:]


@unit("C11", "BaseIOStream.read_into.buffer-swap", [(M, "BaseIOStream.read_into"), (M, "BaseIOStream._finish_read")])
def u_read_into(c):
    """user-buffer mode: consumed ++ buf[:size] ++ saved-rest == delivered after the swap; _finish_read restores the saved rest as the read buffer and reports the count"""
    if not c.symbolic:
        c.cover("read_into/concrete-runs-are-the-stand-in's")
        c.oblige("post/(the unmodified read_into is exercised on real bytearrays by the stand-in)", True)
        return
    s, g = mk(c)
    c.assume(inv(c, s, g))
    view0, size0 = s._read_buffer.view, s._read_buffer_size
    ub = c.bytes("user_buffer_initial")
    buf = UBuf(c, ub)
    n = SInt(z3.Length(ub.t))
    partial = c.choose("partial", [False, True])
    log = []
    s._try_inline_read = lambda: log.append("try_inline")
    s._start_read = lambda: "future"
    out = c.call(c.fn(M, "BaseIOStream.read_into"), s, buf, partial)
    c.only_raises(out, ())
    c.cover("read_into/swap")
    if out.raised:
        return
    c.oblige("post/the-caller's-buffer-is-the-read-buffer-now-and-the-request-is-for-its-whole-length", s._read_buffer is buf and s._user_read_buffer is True and s._read_bytes == n and s._read_partial == partial and log == ["try_inline"])
    size = s._read_buffer_size
    rest = s._after_user_read_buffer.view if s._after_user_read_buffer is not None else b""
    k = SInt(z3.If(size0.t >= n.t, n.t, size0.t))          # bytes of the caller's buffer filled so far (the size counter keeps the number that was available, which may exceed it until _finish_read)
    filled = buf.view[0:k]
    c.oblige("post/what-was-buffered-went-to-the-front-of-the-caller's-buffer-in-order", And(size == size0, filled == view0[0:k]))
    c.oblige("post/nothing-is-lost: consumed ++ filled part ++ saved rest == delivered", Or(And(size0 >= n, g["consumed"] + filled + rest == g["delivered"]), And(size0 < n, g["consumed"] + filled == g["delivered"], s._after_user_read_buffer is None)))
    c.oblige("post/the-caller's-buffer-keeps-its-length", SInt(z3.Length(buf.view.t)) == n)
    # now the request is satisfied (the buffer is full): _finish_read hands back the count and restores the saved rest
    got = []

    class Fut:
        def done(self):
            return False

        def cancelled(self):
            return False

        def set_result(self, v):
            got.append(v)
    s._read_future = Fut()
    saved = s._after_user_read_buffer
    o2 = c.call(c.fn(M, "BaseIOStream._finish_read"), s, n)
    c.only_raises(o2, ())
    if o2.raised:
        return
    c.oblige("post/_finish_read-reports-the-number-of-bytes-not-a-copy", got == [n] or (len(got) == 1 and got[0] is n))
    restored = s._read_buffer
    rv = restored.view if isinstance(restored, RBuf) else bytes(restored)
    sv = saved.view if saved is not None else b""
    c.oblige("post/normal-mode-is-restored-with-the-saved-rest-as-the-buffer", And(s._user_read_buffer is False and s._after_user_read_buffer is None, rv == sv,
                                                                                   s._read_buffer_size == (SInt(z3.Length(rv.t)) if isinstance(rv, SStr) else len(rv))))


DELIMS = [b"\n", b"\r\n", b"\r\n\r\n", b"abc", b"--boundary--"]
ARRIVALS = ["all-at-once", "1-then-rest", "2-then-rest", "1-1-then-rest", "one-short-of-the-delimiter-then-rest", "cut-inside-the-first-delimiter", "cut-right-after-the-first-delimiter",
            "3-3-then-rest", "byte-by-byte", "1-then-byte-by-byte"]


@unit("C11", "delimiter-reads.arrival-patterns", [(M, "BaseIOStream.read_until"), (M, "BaseIOStream.read_until_regex"), (M, "BaseIOStream._find_read_pos"), (M, "BaseIOStream._read_to_buffer_loop"),
                                                   (M, "BaseIOStream._read_from_buffer")],
      bounded="finite case analysis: 5 delimiters (1-12 bytes) x literal/regex x 4 lengths of text before the first delimiter x 10 arrival patterns x (nothing | first piece) already buffered "
              "x 3 read_chunk_sizes, through the real stream over a scripted transport")
def u_arrivals(c):
    """a delimiter read returns everything up to and including the FIRST occurrence, whatever the sizes of the pieces the bytes arrive in (tiny first pieces, cuts inside the
    delimiter), and the following reads get exactly the rest"""
    import re as _re
    from pyvc import core
    core.PATH_CAP = max(core.PATH_CAP, 6000)      # a finite product of cases (2400), each a few ms
    delim = c.choose("delimiter", DELIMS)
    kind = c.choose("kind", ["until", "regex"])
    head = c.choose("bytes-before-the-first-delimiter", [0, 1, 2, 7])
    arrival = c.choose("arrival", ARRIVALS)
    pre = c.choose("already-buffered", [0, 1])
    chunk = c.choose("read_chunk_size", [4096, 1, 3])
    text = (b"xyzwvut"[:head]) + delim + b"BODY" + delim + b"tail"
    d = len(delim)
    first_end = head + d
    cuts = {"all-at-once": [], "1-then-rest": [1], "2-then-rest": [2], "1-1-then-rest": [1, 2], "one-short-of-the-delimiter-then-rest": [max(d - 1, 1)],
            "cut-inside-the-first-delimiter": [head + max(d // 2, 1)] if d > 1 else [head], "cut-right-after-the-first-delimiter": [first_end],
            "3-3-then-rest": [3, 6], "byte-by-byte": list(range(1, len(text))), "1-then-byte-by-byte": list(range(1, len(text)))}[arrival]
    cuts = sorted(set(x for x in cuts if 0 < x < len(text)))
    pieces = [text[a:b] for a, b in zip([0] + cuts, cuts + [len(text)])]
    req = ("until", delim, None) if kind == "until" else ("regex", _re.escape(delim), None)
    prog = [req, req, ("bytes", 4)]
    results, closed = run_reads(pieces, prog, chunk, min(pre, len(pieces)))
    c.cover("arrivals")
    got = [r for (_q, r) in results]
    c.values = {"stream": text, "pieces": [len(x) for x in pieces], "results": [x if isinstance(x, str) else bytes(x) for x in got]}
    c.oblige("post/the-read-ends-with-the-first-occurrence-of-the-delimiter", len(got) >= 1 and got[0] == text[:first_end])
    c.oblige("post/the-next-delimiter-read-continues-right-after-it", len(got) >= 2 and got[1] == b"BODY" + delim)
    c.oblige("post/and-the-rest-follows-nothing-lost-or-repeated", len(got) == 3 and got[2] == b"tail")


# ---------------------------------------------------------------------------------- bounded stand-in
def run_reads(pieces, prog, chunk, pre):
    """the real stream (FakeTransportStream: BaseIOStream over a scripted transport) fed `pieces` (`pre` of them before the first request, the rest one per
    event-loop round, then EOF) and asked the read requests of `prog` one after the other; returns ([(request, result bytes | outcome name)], closed)"""
    import asyncio
    import tornado.iostream as IO
    from pyvc.standin.fakestream import FakeTransportStream, EOF
    from pyvc.standin import wsharness as H

    async def main():
        s = FakeTransportStream(read_chunk_size=chunk)
        results = []
        feed_i = [0]

        def feed_more():
            if feed_i[0] < len(pieces):
                s.feed(pieces[feed_i[0]])
                feed_i[0] += 1
                return True
            if feed_i[0] == len(pieces):
                s.feed(EOF)
                feed_i[0] += 1
                return True
            return False
        for _ in range(pre):
            feed_more()
        for req in prog:
            if s.closed() and not s._read_buffer_size:
                pass
            try:
                if req[0] in ("bytes", "partial"):
                    fut = s.read_bytes(req[1], partial=(req[0] == "partial"))
                elif req[0] in ("into", "into-partial"):
                    buf = bytearray(req[1])
                    fut = s.read_into(buf, partial=(req[0] == "into-partial"))
                elif req[0] in ("until", "until-max"):
                    fut = s.read_until(req[1], max_bytes=req[2])
                elif req[0] in ("regex", "regex-max"):
                    fut = s.read_until_regex(req[1], max_bytes=req[2])
                else:
                    fut = s.read_until_close()
            except IO.StreamClosedError:
                results.append((req, "StreamClosedError"))
                break
            except IO.UnsatisfiableReadError:
                results.append((req, "Unsatisfiable"))
                break
            fut = asyncio.ensure_future(fut) if not isinstance(fut, asyncio.Future) else fut
            for _ in range(20000):
                s.pump()
                await asyncio.sleep(0)
                if fut.done():
                    break
                if not feed_more() and s.closed():
                    await asyncio.sleep(0)
                    await asyncio.sleep(0)
                    break
                s.pump()
            if not fut.done():
                await asyncio.sleep(0)
            if not fut.done():
                results.append((req, "pending"))
                fut.cancel()
                break
            if fut.exception() is not None:
                results.append((req, type(fut.exception()).__name__))
                break
            r = fut.result()
            if req[0].startswith("into"):
                r = bytes(buf[:r])
            results.append((req, r))
        return results, s.closed()
    return H.run(main)



def standin(tier, seed):
    import asyncio
    import random
    import re
    import time
    import tornado.iostream as IO
    from pyvc.standin.fakestream import FakeTransportStream, EOF, WOULD_BLOCK
    from pyvc.standin import wsharness as H
    t0 = time.time()
    rng = random.Random(seed)
    evals, nontriv, failures, samples = 0, set(), [], []
    N = 400 if tier == "quick" else 4000

    def fail(what, **h):
        if len(failures) < 6:
            failures.append({"what": what, "history": {k: repr(v)[:400] for k, v in h.items()}})
    for it in range(N):
        size = rng.choice([0, 1, 5, 64, 300, 2000, 5000, 20000])
        alphabet = rng.choice([b"ab\n", b"ab\r\n", bytes(range(256)), b"a", b"ab\r\n0123456789"])
        stream_bytes = bytes(rng.choice(alphabet) for _ in range(size))
        # arrival pattern
        pat = rng.choice(["all", "bytes", "random", "chunk-boundary"])
        if pat == "all":
            pieces = [stream_bytes] if stream_bytes else []
        elif pat == "bytes":
            stream_bytes = stream_bytes[:1500]          # (one event-loop round per byte: keep the byte-wise arrivals short)
            pieces = [stream_bytes[i:i + 1] for i in range(len(stream_bytes))]
        else:
            cuts = sorted(rng.randrange(0, len(stream_bytes) + 1) for _ in range(rng.randint(0, 8)))
            pieces = [stream_bytes[a:b] for a, b in zip([0] + cuts, cuts + [len(stream_bytes)]) if a != b]
        chunk = rng.choice([1, 2, 7, 64, 4096, 65536])
        # a program of read requests
        prog = []
        for _ in range(rng.randint(1, 6)):
            k = rng.choice(["bytes", "partial", "into", "into-partial", "until", "until-max", "regex", "regex-max", "close"])
            if k in ("bytes", "partial", "into", "into-partial"):
                prog.append((k, rng.choice([0, 1, 2, 5, 63, 64, 65, 500, 4096, 5000, 9000])))
            elif k in ("until", "until-max"):
                prog.append((k, rng.choice([b"\n", b"\r\n", b"ab", b"a", b"\r\n\r\n"]), rng.choice([1, 2, 5, 50, 1000]) if k == "until-max" else None))
            elif k in ("regex", "regex-max"):
                prog.append((k, rng.choice([rb"\r?\n", rb"a+b", rb"[0-9]{2}", rb"\n\n|\r\n\r\n"]), rng.choice([1, 3, 20, 1000]) if k == "regex-max" else None))
            else:
                prog.append(("close",))
        evals += 1

        pre = rng.randint(0, len(pieces))          # some pieces have arrived before the first request
        try:
            results, closed = run_reads(pieces, prog, chunk, pre)
        except Exception as e:
            fail("harness / stream raised %s: %s" % (type(e).__name__, e), stream=stream_bytes[:60], program=prog, pieces=[len(p) for p in pieces][:20], chunk=chunk)
            continue
        hist = dict(stream=stream_bytes[:80], length=len(stream_bytes), program=prog, pieces=[len(p) for p in pieces][:30], read_chunk_size=chunk)
        # ---- judge: replay the program on the whole stream (the statement's reference semantics)
        off, ok = 0, True
        for (req, r) in results:
            rest = stream_bytes[off:]
            k = req[0]
            if isinstance(r, str):
                # an error outcome: legitimate iff the reference cannot satisfy the request
                if r == "StreamClosedError":
                    want_err = ref_cannot(req, rest)
                    if not want_err:
                        fail("%r failed with StreamClosedError although the remaining stream %r... satisfies it" % (req, rest[:30]), **hist)
                elif r in ("Unsatisfiable", "UnsatisfiableReadError"):
                    if not ref_unsat(req, rest):
                        fail("%r was refused as unsatisfiable although the delimiter comes within max_bytes" % (req,), **hist)
                elif r == "pending":
                    fail("%r never completed although the peer closed" % (req,), **hist)
                else:
                    fail("%r failed with %s" % (req, r), **hist)
                break
            want = ref_read(req, rest)
            if want is None:
                fail("%r returned %r... but the reference cannot satisfy it from %r..." % (req, r[:30], rest[:30]), **hist)
                ok = False
                break
            if k in ("partial", "into-partial"):
                good = 0 < len(r) <= req[1] and rest.startswith(r) if req[1] > 0 and rest else r == b""
            else:
                good = r == want
            if not good:
                fail("%r returned %r (%d bytes), expected %r (%d bytes): lost, duplicated or reordered data or a broken contract" % (req, r[:40], len(r), want[:40], len(want)), **hist)
                ok = False
                break
            if req[0] in ("until-max", "regex-max") and len(r) > req[2]:
                fail("%r returned %d bytes, more than max_bytes" % (req, len(r)), **hist)
            off += len(r)
        nontriv.add((pat, chunk, tuple(x[0] for x in prog), len(results)))
    samples.append({"stream": "GET / HTTP/1.1\\r\\n\\r\\nbody", "program": "read_until(b'\\r\\n\\r\\n'); read_bytes(4)", "results": ["GET / HTTP/1.1\\r\\n\\r\\n", "body"]})
    return {"evaluations": evals, "distinct_nontrivial": len(nontriv), "failures": failures[:3], "samples": samples,
            "rule": "%d runs: a random stream (0-20000 bytes over 5 alphabets; byte-wise arrivals up to 1500) arriving all at once / byte by byte / in random pieces, some before the first request, read_chunk_size 1-65536, and a program "
                    "of 1-6 requests (read_bytes, partial, read_into, read_into partial, read_until with / without max_bytes, read_until_regex with / without max_bytes, read_until_close) on the real "
                    "BaseIOStream over the in-memory transport, the peer closing at the end: every result equals the reference reading of the remaining stream (partial reads: a non-empty prefix within "
                    "the size), the results concatenate to a prefix of the stream, errors only where the reference cannot satisfy the request, max_bytes never exceeded" % N,
            "wall_s": round(time.time() - t0, 2)}


def _first_end(req, rest):
    import re
    if req[0].startswith("until"):
        i = rest.find(req[1])
        return None if i < 0 else i + len(req[1])
    m = re.compile(req[1]).search(rest)
    return None if m is None else m.end()


def ref_read(req, rest):
    """what the request returns when the whole remaining stream `rest` arrives and then the peer closes; None if it cannot be satisfied"""
    k = req[0]
    if k in ("bytes", "into"):
        return rest[:req[1]] if len(rest) >= req[1] else None
    if k in ("partial", "into-partial"):
        return rest[:req[1]] if (rest or req[1] == 0) else None
    if k == "close":
        return rest
    e = _first_end(req, rest)
    if e is None or (req[2] is not None and e > req[2]):
        return None
    return rest[:e]


def ref_cannot(req, rest):
    return ref_read(req, rest) is None


def ref_unsat(req, rest):
    if req[0] not in ("until-max", "regex-max"):
        return False
    e = _first_end(req, rest)
    return (e is not None and e > req[2]) or (e is None and len(rest) > req[2]) or (e is None)
