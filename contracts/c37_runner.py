"""C37 — decorated generator coroutines behave like native coroutines (tornado/gen.py).  DESIGN §6.6 C37.

P: gen.Runner against an *abstract generator* (the environment): every resumption of the generator is a protocol
step of the Python coroutine protocol, which is what makes `@gen.coroutine def f(): ... yield x ...` behave as
`async def f(): ... await x ...`:
  * Runner.run (its `while True` loop cut at an invariant): the generator is resumed only when the awaited future
    is done, with exactly that future's result (send) or exception (throw - including cancellation, delivered as
    CancelledError like `await` does); never after it finished, never re-entrantly; a returned value / raised
    exception settles the result future exactly once (left alone if its consumer cancelled it); a pending yield is
    awaited through exactly one add_future(inner) registration, `moment` through one add_callback; a bad yield is
    thrown back as BadYieldError; `running` is restored on every exit; nothing but what the generator raises ... is raised.
  * Runner.handle_yield, Runner.__init__ and the `inner` closure.
  (the `coroutine` wrapper's inlined first step - bodies that finish without yielding - is covered by the stand-in only)
B: coroutine bodies from a small grammar (await future, list, dict, moment/None, native sub-coroutine, return,
raise, try/except/finally, nested) interpreted both as a @gen.coroutine generator and as an async def task, for
every outcome assignment and completion order (incl. pre-completed) of <= 3 futures: same result / exception and the
same sequence of own side effects; a context variable set by the caller is visible in the body.
"""
import asyncio

import z3

from pyvc.unit import unit
from pyvc.proxies import And, Or, Not, Implies, SBool, SInt
from pyvc.rewrite import LoopSpec
from pyvc import heap as H, core
from pyvc.heap import PENDING, RESULT, EXC, CANCELLED, st

LEVEL = "other"
STANDIN_ALWAYS_THOROUGH = True      # its large bound takes seconds: used at both tiers
EXPLANATION = ("MIXED. gen.Runner proved against an abstract generator for unboundedly many resumptions (run()'s loop cut at an invariant): the generator "
               "is resumed only when the awaited future is done, with that future's result or exception (cancellation as CancelledError), never after "
               "it finished and never re-entrantly; its return value / exception settles the result future exactly once; pending yields are awaited by "
               "exactly one add_future registration, moment by one add_callback, bad yields come back as BadYieldError; running is restored on every "
               "exit; handle_yield, __init__ and the inner callback likewise. Equivalence with async def tasks "
               "on a bounded grammar of bodies x all outcome assignments x completion orders of <= 3 futures in the stand-in. Found and fixed F-19.")
TRUSTED = ["asyncio.Future model", "IOLoop.add_future/add_callback as ghost registrations (C38)", "convert_yielded as a stub: futures and moment pass through, "
           "lists/dicts become one combined future (C36), anything else BadYieldError", "contextvars.Context.run as a plain call in the proof units"]
ASSUMPTIONS = ["A-LOOP", "A-ENV: the generator body does not complete or cancel the Runner's own result future", "the result future is pending or was cancelled by its consumer"]
M = "tornado.gen"


class Loop:
    def __init__(self):
        self.futs, self.cbs = [], []

    def add_future(self, f, cb):
        self.futs.append((f, cb))

    def add_callback(self, cb, *a, **k):
        self.cbs.append((cb, a))


def tag_eq_val(h, fut, x):
    """x is the value stored in fut."""
    if isinstance(x, H.SVal):
        return SBool(x.t == z3.Select(h.val, fut.ref))
    return SBool(h.tag_of(x) == z3.Select(h.val, fut.ref))


def tag_eq_exc(h, fut, x):
    if isinstance(x, H.SymExc):
        t = x.tag
        return SBool((t.t if hasattr(t, "t") else t) == z3.Select(h.exc, fut.ref))
    return SBool(h.tag_of(x) == z3.Select(h.exc, fut.ref))


class GenStub:
    """the abstract generator: every resumption checks the protocol, then the environment picks what the body does next."""
    def __init__(self, c, G, runner_ref):
        self.c, self.G, self.runner_ref = c, G, runner_ref
        self.active = False

    def send(self, v):
        return self._resume("send", v)

    def throw(self, e, *rest):
        return self._resume("throw", e)

    def _resume(self, how, x):
        c, G = self.c, self.G
        r = self.runner_ref()
        G["resumes"] = G.get("resumes", 0) + 1
        c.oblige("protocol/never-resumed-after-finishing-or-re-entrantly", (r is None or r.finished is False) and not self.active and not G.get("over"))
        cur = G.get("cur")
        c.oblige("protocol/resumed-only-for-the-future-it-awaits", cur is not None)
        if cur == "BAD":
            import tornado.gen as TG_
            c.oblige("protocol/bad-yield-comes-back-as-BadYieldError", how == "throw" and isinstance(x, TG_.BadYieldError))
        elif cur is not None:
            h = H.heap(c)
            if c.symbolic:
                c.oblige("protocol/resumed-only-when-the-awaited-future-is-done", st(cur) != PENDING)
                if how == "send":
                    c.oblige("protocol/send-carries-the-awaited-result", And(st(cur) == RESULT, tag_eq_val(h, cur, x)))
                elif isinstance(x, asyncio.CancelledError):
                    c.oblige("protocol/cancellation-is-delivered-as-CancelledError", st(cur) == CANCELLED)
                else:
                    c.oblige("protocol/throw-carries-the-awaited-exception", And(st(cur) == EXC, tag_eq_exc(h, cur, x)))
            else:
                c.oblige("protocol/resumed-only-when-the-awaited-future-is-done", cur.done())
                if cur.done():
                    if how == "send":
                        c.oblige("protocol/send-carries-the-awaited-result", (not cur.cancelled()) and cur.exception() is None and cur.result() is x)
                    elif isinstance(x, asyncio.CancelledError):
                        c.oblige("protocol/cancellation-is-delivered-as-CancelledError", cur.cancelled())
                    else:
                        c.oblige("protocol/throw-carries-the-awaited-exception", (not cur.cancelled()) and cur.exception() is x)
        G["cur"] = None
        what = c.choose("generator-body", ["yields-done-future", "yields-pending-future", "yields-moment", "yields-bad", "returns", "raises"])
        if not c.symbolic and G["resumes"] > 6:
            what = "returns"          # concrete runs (cross-check, replay) execute the loop for real: keep them finite
        G["last"] = what
        if what == "returns":
            G["over"] = True
            G["returned"] = "RETVAL"
            raise StopIteration("RETVAL")
        if what == "raises":
            G["over"] = True
            G["raised"] = RuntimeError("body failed")
            raise G["raised"]
        if what == "yields-moment":
            import tornado.gen as TG
            return TG.moment
        if what == "yields-bad":
            G["cur"] = "BAD"
            return BAD
        f = H.pre_future(c, "yielded")
        if c.symbolic:
            c.assume(st(f) == PENDING if what == "yields-pending-future" else st(f) != PENDING)
            for o in (G.get("result_future"),):
                if o is not None:
                    c.assume(Not(f == o))
        else:
            if (what == "yields-pending-future") != (not f.done()):
                c.assume(False)
            c.assume(f is not G.get("result_future"))
        G["yielded"] = f
        G["cur"] = f          # what the runner now awaits
        return f


class _Bad:
    pass


BAD = _Bad()


def mk_runner(c, TG, G, finished=False, running=False):
    r = TG.Runner.__new__(TG.Runner)
    r.ctx_run = lambda f, *a, **k: f(*a, **k)
    r.io_loop = Loop()
    r.gen = GenStub(c, G, lambda: r)
    r.running, r.finished = running, finished
    rf = H.pre_future(c, "result_future")
    c.assume(Or(st(rf) == PENDING, st(rf) == CANCELLED))
    r.result_future = rf
    G["result_future"] = rf
    return r


def convert_stub(TG, c):
    def convert(y):
        if y is BAD:
            raise TG.BadYieldError("yielded unknown object %r" % (y,))
        return y
    return convert


@unit("C37", "Runner.run", [(M, "Runner.run"), (M, "Runner.handle_yield")])
def u_run(c):
    import tornado.gen as TG
    c.ground_heap = True
    G = {}
    entry = c.choose("entry-state", ["idle", "running", "finished"])
    r = mk_runner(c, TG, G, finished=(entry == "finished"), running=(entry == "running"))
    # (the placeholder _null_future is only stored while the runner is finished or before its first handle_yield)
    fk = c.choose("awaited", ["future", "null"]) if entry == "finished" else "future"
    if fk == "future":
        cur = H.pre_future(c, "awaited")
        c.assume(Not(cur == r.result_future) if c.symbolic else cur is not r.result_future)
    else:
        cur = TG._null_future
    r.future = cur
    G["cur"] = cur if fk == "future" else None
    rf = r.result_future
    snap = H.HeapSnap(c)
    rf0 = snap.st_of(rf)
    cur0 = snap.st_of(cur) if fk == "future" else RESULT

    def inv(c_, L, old):
        s = L["self"]
        return And(s.running is True, s.finished is False, s.future is not None, s.result_future is rf, st(rf) == rf0,
                   G.get("over") is not True)

    def fields(c_, L):
        # a later iteration: the awaited future is whatever the previous step made done (any done future)
        f = H.pre_future(c_, "awaited_later")
        c_.assume(Not(f == rf))
        L["self"].future = f
        G["cur"] = f
        r.io_loop.futs.clear()
        r.io_loop.cbs.clear()
    loops = {0: LoopSpec(inv, fields=fields)} if c.symbolic else {}
    f = c.fn(M, "Runner.run", loops=loops)
    with c.patched((TG, "convert_yielded", convert_stub(TG, c))):
        out = c.call(f, r)
    if G.get("last") == "raises" and False:
        pass
    c.only_raises(out, ())
    if out.raised:
        return
    c.cover("run/%s" % entry)
    if entry != "idle":
        c.oblige("post/busy-or-finished-runner-does-nothing", G.get("resumes", 0) == 0 and r.running == (entry == "running") and st(rf) == rf0)
        return
    c.oblige("post/running-flag-restored", r.running is False)
    last = G.get("last")
    if last is None:
        c.cover("run/not-resumed")
        c.oblige("post/not-resumed-only-while-the-awaited-future-is-pending", isinstance(r.future, asyncio.Future) and st(r.future) == PENDING)
        c.oblige("post/nothing-settled-without-a-resumption", And(st(rf) == rf0, r.finished is False))
        return
    if last == "returns":
        c.oblige("post/return-value-settles-the-result-future-once",
                 And(r.finished is True, r.result_future is None,
                     Implies(rf0 == PENDING, H.result_is(rf, "RETVAL")), Implies(rf0 == CANCELLED, st(rf) == CANCELLED)))
    elif last == "raises":
        c.oblige("post/raised-exception-settles-the-result-future-once",
                 And(r.finished is True, r.result_future is None,
                     Implies(rf0 == PENDING, exc_tag(c, rf, G["raised"])), Implies(rf0 == CANCELLED, st(rf) == CANCELLED)))
    elif last == "yields-pending-future":
        y = G["yielded"]
        c.oblige("post/pending-yield-is-awaited-by-exactly-one-registration",
                 len(r.io_loop.futs) == 1 and r.io_loop.futs[0][0] is y and getattr(r.io_loop.futs[0][1], "__name__", "") == "inner"
                 and r.future is y and r.finished is False and r.io_loop.cbs == [])
        c.oblige("frame/result-future-untouched-while-suspended", st(rf) == rf0, kind="frame")
    elif last == "yields-moment":
        c.oblige("post/moment-reschedules-run-once", len(r.io_loop.cbs) == 1 and r.io_loop.futs == [] and r.finished is False and st(rf) == rf0)
    else:
        c.oblige("post/every-other-step-continues-the-loop", False)


def exc_tag(c, f, e):
    if c.symbolic:
        h = H.heap(c)
        return SBool(z3.And(f._st() == EXC, z3.Select(h.exc, f.ref) == h.tag_of(e)))
    return st(f) == EXC and f.exception() is e


@unit("C37", "Runner.handle_yield", [(M, "Runner.handle_yield")])
def u_handle_yield(c):
    import tornado.gen as TG
    c.ground_heap = True
    G = {}
    r = mk_runner(c, TG, G, running=True)
    r.future = None
    kind = c.choose("yielded", ["done-future", "pending-future", "moment", "bad"])
    if kind in ("done-future", "pending-future"):
        y = H.pre_future(c, "yielded")
        c.assume(st(y) == PENDING if kind == "pending-future" else st(y) != PENDING)
    elif kind == "moment":
        y = TG.moment
    else:
        y = BAD
    h = H.heap(c)
    with c.patched((TG, "convert_yielded", convert_stub(TG, c)), (TG, "Future", lambda: h.new())):
        out = c.call(c.fn(M, "Runner.handle_yield"), r, y)
    c.only_raises(out, ())
    if out.raised:
        return
    c.cover("handle_yield/" + kind)
    if kind == "done-future":
        c.oblige("post/done-future-continues-inline", out.value is True and r.future is y and r.io_loop.futs == [] and r.io_loop.cbs == [])
    elif kind == "pending-future":
        c.oblige("post/pending-future-registers-inner-once", out.value is False and r.future is y and len(r.io_loop.futs) == 1
                 and r.io_loop.futs[0][0] is y and r.io_loop.futs[0][1].__name__ == "inner")
    elif kind == "moment":
        c.oblige("post/moment-reschedules-run", out.value is False and len(r.io_loop.cbs) == 1 and r.io_loop.futs == [])
    else:
        f = r.future
        c.oblige("post/bad-yield-becomes-a-failed-future-thrown-back-inline",
                 out.value is True and isinstance(f, asyncio.Future) and (H.exc_isinstance(f, TG.BadYieldError)))


@unit("C37", "Runner.handle_yield.inner", [(M, "Runner.handle_yield.<locals>.inner")])
def u_inner(c):
    """the callback registered for a pending yield resumes the runner (through ctx_run) and nothing else."""
    import tornado.gen as TG
    calls = []
    r = TG.Runner.__new__(TG.Runner)
    r.ctx_run = lambda f, *a, **k: calls.append((f, a))
    r.run = lambda: None
    f = c.fn(M, "Runner.handle_yield", closure="inner", cells={"self": r})
    out = c.call(f, object())
    c.only_raises(out, ())
    c.cover("inner")
    c.oblige("post/inner-resumes-the-runner-once", len(calls) == 1 and calls[0][0] == r.run and calls[0][1] == ())


@unit("C37", "Runner.__init__", [(M, "Runner.__init__")])
def u_init(c):
    import tornado.gen as TG
    first_ready = c.choose("first-yield-ready", [True, False])
    log = []
    r = TG.Runner.__new__(TG.Runner)
    r.handle_yield = lambda y: (log.append(("handle_yield", y)), first_ready)[1]
    r.run = lambda: log.append("run")
    loop = Loop()
    fake_ioloop = type("IOLoopStub", (), {"current": staticmethod(lambda: loop)})
    gen_, rf, y = object(), object(), object()
    with c.patched((TG, "IOLoop", fake_ioloop)):
        out = c.call(c.fn(M, "Runner.__init__"), r, (lambda f, *a, **k: f(*a, **k)), gen_, rf, y)
    c.only_raises(out, ())
    if out.raised:
        return
    c.cover("init")
    c.oblige("post/fields-initialised", r.gen is gen_ and r.result_future is rf and r.running is False and r.finished is False and r.io_loop is loop)
    c.oblige("post/first-yield-handled-then-run-only-if-ready", log == ([("handle_yield", y), "run"] if first_ready else [("handle_yield", y)]))


# ---------------------------------------------------------------------------------- bounded stand-in
RET = object()


def standin(tier, seed):
    import contextvars
    import itertools
    import time
    from tornado import gen
    t0 = time.time()
    evals, nontriv, failures, samples = 0, set(), [], []
    var = contextvars.ContextVar("c37", default="unset")

    class Env:
        def __init__(self, futs):
            self.futs, self.log = futs, []

    def g_exec(ops, env):
        """generator interpreter (decorated form); returns (RET, value) when the block executed a return"""
        for op in ops:
            k = op[0]
            if k == "await":
                v = yield env.futs[op[1]]
                env.log.append(("got", op[1], v))
            elif k == "await_list":
                v = yield [env.futs[i] for i in op[1]]
                env.log.append(("got_list", tuple(op[1]), tuple(v)))
            elif k == "await_dict":
                v = yield {str(i): env.futs[i] for i in op[1]}
                env.log.append(("got_dict", tuple(sorted(v.items()))))
            elif k == "moment":
                yield (gen.moment if op[1] else None)
                env.log.append(("resumed",))
            elif k == "native":
                v = yield n_sub(op[1], env)
                env.log.append(("native_returned", v))
            elif k == "ctx":
                env.log.append(("ctx", var.get()))
            elif k == "setctx":
                var.set(op[1])
            elif k == "log":
                env.log.append(("log", op[1]))
            elif k == "raise":
                raise KeyError(op[1])
            elif k == "return":
                return (RET, op[1])
            elif k == "try":
                try:
                    r = yield from g_exec(op[1], env)
                    if r is not None:
                        return r
                except ValueError as e:
                    env.log.append(("caught", str(e)))
                    if op[2]:
                        r = yield from g_exec(op[2], env)
                        if r is not None:
                            return r
                finally:
                    env.log.append(("finally",))
        return None

    async def n_sub(i, env):
        v = await env.futs[i]
        env.log.append(("sub_got", i, v))
        return ("sub", v)

    async def a_exec(ops, env):
        for op in ops:
            k = op[0]
            if k == "await":
                v = await env.futs[op[1]]
                env.log.append(("got", op[1], v))
            elif k == "await_list":
                v = await gen.multi([env.futs[i] for i in op[1]])
                env.log.append(("got_list", tuple(op[1]), tuple(v)))
            elif k == "await_dict":
                v = await gen.multi({str(i): env.futs[i] for i in op[1]})
                env.log.append(("got_dict", tuple(sorted(v.items()))))
            elif k == "moment":
                await asyncio.sleep(0)
                env.log.append(("resumed",))
            elif k == "native":
                v = await n_sub(op[1], env)
                env.log.append(("native_returned", v))
            elif k == "ctx":
                env.log.append(("ctx", var.get()))
            elif k == "setctx":
                var.set(op[1])
            elif k == "log":
                env.log.append(("log", op[1]))
            elif k == "raise":
                raise KeyError(op[1])
            elif k == "return":
                return (RET, op[1])
            elif k == "try":
                try:
                    r = await a_exec(op[1], env)
                    if r is not None:
                        return r
                except ValueError as e:
                    env.log.append(("caught", str(e)))
                    if op[2]:
                        r = await a_exec(op[2], env)
                        if r is not None:
                            return r
                finally:
                    env.log.append(("finally",))
        return None

    def decorated(ops, env):
        @gen.coroutine
        def body():
            r = yield from g_exec(ops, env)
            return r[1] if r is not None else "fell-off"
        return body()

    def native(ops, env):
        async def body():
            r = await a_exec(ops, env)
            return r[1] if r is not None else "fell-off"
        return asyncio.ensure_future(body())

    BODIES = [
        [("await", 0), ("return", 1)],
        [("ctx",), ("await", 0), ("ctx",), ("await", 1), ("return", "x")],
        [("await", 1), ("await", 0)],
        [("try", [("await", 0), ("log", "after")], [("await", 1)]), ("log", "end")],
        [("try", [("await", 0), ("raise", "k")], None), ("log", "unreached?")],
        [("try", [("await", 0), ("return", "early")], None), ("log", "unreached")],
        [("await_list", [0, 1]), ("return", "l")],
        [("await_dict", [0, 1]), ("await", 2)],
        [("moment", True), ("await", 0), ("moment", False), ("log", "m")],
        [("native", 0), ("await", 1)],
        [("try", [("native", 0)], [("log", "h")]), ("await", 1)],
        [("try", [("try", [("await", 0)], [("raise", "inner")])], [("log", "outer")]), ("await", 1)],
        [("log", "sync-only"), ("return", 7)],
        [("raise", "immediately")],
        [("try", [("await_list", [0, 1])], [("await", 2)]), ("return", "z")],
        [("await", 0), ("await", 0)],
        [("await", 0), ("setctx", "set-in-body"), ("moment", True), ("ctx",), ("await", 1), ("ctx",)],
    ]
    if tier != "quick":
        BODIES += [[("await", 2), ("try", [("await", 1), ("await", 0)], [("moment", True)]), ("native", 2)],
                   [("try", [("native", 1), ("await_dict", [0, 2])], None)],
                   [("moment", False), ("moment", True), ("return", None)]]

    async def scenario(ops, outcomes, order, pre, form):
        nf = len(outcomes)
        futs = [asyncio.Future() for _ in range(nf)]
        env = Env(futs)

        def complete(i):
            if futs[i].done():
                return
            if outcomes[i] == "ok":
                futs[i].set_result("r%d" % i)
            else:
                futs[i].set_exception(ValueError("e%d" % i))
        for i in pre:
            complete(i)
        tok = var.set("caller-value")
        try:
            top = decorated(ops, env) if form == "dec" else native(ops, env)
        finally:
            var.reset(tok)
        for i in order:
            for _ in range(4):
                await asyncio.sleep(0)
            complete(i)
        for _ in range(12):
            await asyncio.sleep(0)
        for f in futs:
            if f.done() and not f.cancelled():
                f.exception()
        if not top.done():
            res = ("pending",)
            top.cancel()
        elif top.cancelled():
            res = ("cancelled",)
        elif top.exception() is not None:
            e = top.exception()
            res = ("exc", type(e).__name__, str(e))
        else:
            res = ("ok", top.result())
        return res, env.log

    loop = asyncio.new_event_loop()
    asyncio.set_event_loop(loop)
    try:
        for bi, ops in enumerate(BODIES):
            used = sorted({i for op in str(ops) for i in ()} | set(_futs_used(ops)))
            nf = (max(used) + 1) if used else 0
            for outcomes in itertools.product(("ok", "err"), repeat=nf):
                orders = list(itertools.permutations(range(nf)))
                pres = [()] + [(i,) for i in range(nf)] + ([tuple(range(nf))] if nf > 1 else [])
                for order in orders:
                    for pre in pres:
                        if tier == "quick" and nf == 3 and len(pre) == 1 and order != tuple(range(nf)):
                            continue
                        evals += 1
                        try:
                            d = loop.run_until_complete(scenario(ops, outcomes, order, pre, "dec"))
                            n = loop.run_until_complete(scenario(ops, outcomes, order, pre, "nat"))
                        except BaseException as e:
                            d, n = ("harness", repr(e)), None
                        nontriv.add((bi, outcomes, order, pre))
                        if d != n and len(failures) < 4:
                            failures.append({"what": "decorated and native forms differ: %r vs %r" % (d, n),
                                             "history": {"body": repr(ops), "outcomes": outcomes, "completion_order": order, "pre_completed": pre}})
                        if len(samples) < 2 and nf == 2 and outcomes == ("ok", "err"):
                            samples.append({"body": repr(ops), "result": repr(d[0]), "log": repr(d[1])[:200]})
    finally:
        loop.close()
        asyncio.set_event_loop(None)
    return {"evaluations": evals, "distinct_nontrivial": len(nontriv), "failures": failures[:3], "samples": samples,
            "rule": "%d coroutine bodies (await future / list / dict / moment / None / native sub-coroutine, return, raise, try/except/finally, nesting, a "
                    "caller-set context variable) run as @gen.coroutine generators and as async def tasks on a real asyncio loop, for every result/exception "
                    "assignment x completion order x pre-completed subset of the <= 3 futures they use: result or exception and the log of own side effects must "
                    "be identical" % len(BODIES),
            "wall_s": round(time.time() - t0, 2)}


def _futs_used(ops):
    out = []
    for op in ops:
        if op[0] in ("await", "native"):
            out.append(op[1])
        elif op[0] in ("await_list", "await_dict"):
            out.extend(op[1])
        elif op[0] == "try":
            out.extend(_futs_used(op[1]))
            if op[2]:
                out.extend(_futs_used(op[2]))
    return out
