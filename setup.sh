#!/bin/bash
# Idempotent bootstrap: builds /verif/.venv (python 3.12, same minor as the code under test)
# offline from /opt/veriftools/wheels and makes /venv's site-packages (tornado's own deps) visible.
set -e
cd "$(dirname "$0")"
V=.venv
if [ ! -x $V/bin/python ] || ! $V/bin/python -c 'import z3, cvc5, jsonschema' 2>/dev/null; then
  rm -rf $V
  /venv/bin/python -m venv --without-pip $V 2>/dev/null || /root/.pyenv/versions/3.12.1/bin/python -m venv --without-pip $V
  SP=$($V/bin/python -c 'import sysconfig;print(sysconfig.get_paths()["purelib"])')
  export PIP_NO_INDEX=1
  /venv/bin/python -m pip --disable-pip-version-check install -q --no-index --find-links /opt/veriftools/wheels \
      --target "$SP" z3-solver cvc5 jsonschema hypothesis 2>&1 | grep -v -i warning || true
  echo "import site; site.addsitedir('/venv/lib/python3.12/site-packages')" > "$SP/zz_venv.pth"
fi
$V/bin/python -c 'import z3, cvc5, jsonschema, sys; sys.path.insert(0,"/repo"); import tornado; print("setup ok", z3.get_version_string(), sys.version.split()[0])'
