#!/bin/bash
# run the quick tier of every claimed check, 3 at a time; summary lines to ${REGRESS_LOG:-/var/tmp/regress.log}
cd /verif
ids=$(python3 -c "import json; print(' '.join(c['property_id'] for c in json.load(open('/verif/MANIFEST.json'))['checks']))")
: > ${REGRESS_LOG:-/var/tmp/regress.log}
printf "%s\n" $ids | xargs -P 3 -I{} sh -c './check {} --tier quick 2>&1 | grep -v conda | grep -E "^(C[0-9]+ tier|VIOLATION|  undecided|  vacuity|  locked|  engine)" | cut -c1-220 | sed "s/^/{}: /" >> ${REGRESS_LOG:-/var/tmp/regress.log}; echo "{} exit=$?" >> ${REGRESS_LOG:-/var/tmp/regress.log}'
echo DONE >> ${REGRESS_LOG:-/var/tmp/regress.log}
