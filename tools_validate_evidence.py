"""usage: tools_validate_evidence.py [--committed] [Cnn ...]

Checks every evidence file a MANIFEST check names the way the harness does:
  * the file exists and validates against EVIDENCE.schema.json,
  * property_id matches, level == MANIFEST level_claimed.category,
  * proof level: obligations >= 1 and discharged == obligations,
  * exploration-style counts are measured numbers (distinct_nontrivial <= evaluations),
  * violations == 0 (an evidence file of a run that reported a violation is not a record of the
    unchanged tree and must not be committed).
--committed validates the blobs in git HEAD instead of the working tree (what a fresh restore sees).
Exit 0 = all valid, 1 = something is off (listed).
"""
import json
import os
import subprocess
import sys

ROOT = os.path.dirname(os.path.abspath(__file__))
SCHEMA_PATHS = ["/root/.vp/EVIDENCE.schema.json", os.path.join(ROOT, "pyvc", "EVIDENCE.schema.json")]


def schema():
    for p in SCHEMA_PATHS:
        if os.path.exists(p):
            return json.load(open(p))
    return None


def problems(ev, check, sch):
    out = []
    if sch is not None:
        import jsonschema
        v = jsonschema.Draft202012Validator(sch)
        for e in sorted(v.iter_errors(ev), key=lambda e: list(e.path)):
            out.append("schema: %s at /%s" % (e.message[:160], "/".join(map(str, e.path))))
    if ev.get("property_id") != check["property_id"]:
        out.append("property_id %r != %r" % (ev.get("property_id"), check["property_id"]))
    cat = check["level_claimed"]["category"]
    if ev.get("level") != cat:
        out.append("level is %r but MANIFEST level_claimed.category is %r" % (ev.get("level"), cat))
    cov = ev.get("coverage", {})
    if cat == "proof":
        if not cov.get("obligations"):
            out.append("proof level with zero obligations")
        if cov.get("discharged") != cov.get("obligations"):
            out.append("coverage.discharged (%s) != obligations (%s)" % (cov.get("discharged"), cov.get("obligations")))
    if "evaluations" in cov and cov.get("distinct_nontrivial", 0) > cov["evaluations"]:
        out.append("distinct_nontrivial > evaluations")
    if not cov.get("samples"):
        out.append("no samples")
    if ev.get("violations"):
        out.append("record of a run that reported %s violation(s)" % ev["violations"])
    return out


def main():
    args = [a for a in sys.argv[1:] if not a.startswith("--")]
    committed = "--committed" in sys.argv
    man = json.load(open(os.path.join(ROOT, "MANIFEST.json")))
    sch = schema()
    bad = 0
    for c in man["checks"]:
        pid = c["property_id"]
        if args and pid not in args:
            continue
        rel = os.path.relpath(os.path.join(ROOT, c["evidence_file"]), ROOT) if not os.path.isabs(c["evidence_file"]) \
            else os.path.relpath(c["evidence_file"], ROOT)
        try:
            if committed:
                txt = subprocess.check_output(["git", "-C", ROOT, "show", "HEAD:" + rel], stderr=subprocess.STDOUT).decode()
            else:
                txt = open(os.path.join(ROOT, rel)).read()
            ev = json.loads(txt)
        except Exception as e:
            print("%s: cannot read %s (%s)" % (pid, rel, str(e)[:100]))
            bad += 1
            continue
        ps = problems(ev, c, sch)
        cov = ev["coverage"]
        print("%s %-5s level=%-6s obligations=%s discharged=%s evals=%s distinct=%s tier=%s seed=%s%s" % (
            pid, "OK" if not ps else "BAD", ev.get("level"), cov.get("obligations"), cov.get("discharged"),
            cov.get("evaluations"), cov.get("distinct_nontrivial"), ev.get("tier"), ev.get("seed"),
            "".join("\n    - " + p for p in ps)))
        bad += bool(ps)
    return 1 if bad else 0


if __name__ == "__main__":
    sys.exit(main())
