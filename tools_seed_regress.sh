#!/bin/bash
# re-run every kept seeded change against its property's quick check (sequentially: each run patches /repo and undoes it);
# one line per seed to ${SEED_REGRESS_LOG:-/var/tmp/seed_regress.log}: <seed> caught|MISSED|undecided-only  <first VIOLATION obligation>
# Never run while anything else is using /repo.
cd /verif
log=${SEED_REGRESS_LOG:-/var/tmp/seed_regress.log}
: > $log
for d in seeded/*/; do
  id=$(basename $d); P=${id%%_*}
  [ -n "$1" ] && [ "$P" != "$1" ] && continue
  out=$(./tools_seed.sh /verif/$d/patch.diff $P 2>&1 | grep -v conda)
  if echo "$out" | grep -q "^VIOLATION"; then
    echo "$id caught $(echo "$out" | grep -m1 '^VIOLATION' | sed 's/.*obligation=//' | cut -c1-150)" >> $log
  elif echo "$out" | grep -q "undecided"; then
    echo "$id undecided-only" >> $log
  else
    echo "$id MISSED $(echo "$out" | head -1 | cut -c1-120)" >> $log
  fi
done
echo DONE >> $log
