"""usage: tools_keep_seed.py <PROP> <X> <caught|missed> "<which check/obligation caught it>"  -- file a confirmed sub-agent seed under /verif/seeded/"""
import json, os, shutil, sys
P, X, status, by = sys.argv[1:5]
src = "/tmp/seed_out/%s" % P
conf = json.load(open("%s/confirm_%s.json" % (src, X)))
assert conf["applied"] and conf["demo_exit_on_original"] == 0 and conf["demo_exit_with_change"] != 0 and conf["tests"].startswith("1171 passed"), conf
meta_all = json.load(open("%s/meta.json" % src))
m = [x for x in meta_all if x.get("id") == X][0]
d = "/verif/seeded/%s_%s" % (P, X)
os.makedirs(d, exist_ok=True)
shutil.copy("%s/patch_%s.diff" % (src, X), d + "/patch.diff")
shutil.copy("%s/demo_%s.py" % (src, X), d + "/demo.py")
json.dump({"property": P, "source": "independent sub-agent given only the property text and a scratch worktree",
           "file": m.get("file"), "function": m.get("function"), "what_breaks": m.get("what_breaks"),
           "needs_to_manifest": m.get("needs_to_manifest"),
           "confirmed": {"existing_suite_with_change": conf["tests"], "demo_exit_on_original": 0,
                         "demo_exit_with_change": conf["demo_exit_with_change"],
                         "how": "tools_confirm_seed.sh in a scratch worktree (apply, full pytest suite, demo; revert, demo)"},
           "detection": {"status": status, "by": by,
                         "how": "git -C /repo apply patch.diff; ./check %s; git -C /repo checkout -- ." % P}},
          open(d + "/meta.json", "w"), indent=1)
print("kept", d)
