#!/bin/bash
# usage: tools_mutate.sh <file-in-repo> <python-regex> <replacement> <check args...>   (machinery self-test; reverts the edit)
# Evidence and replays of the run on the mutated tree go to a scratch directory (PYVC_OUT), never to /verif/evidence.
f=$1; pat=$2; rep=$3; shift 3
export PYVC_OUT=/var/tmp/pyvc_selftest.$$
mkdir -p $PYVC_OUT
cp /repo/$f /var/tmp/mut_backup.$$ 
python3 - "$f" "$pat" "$rep" <<'PY'
import re,sys
f,pat,rep=sys.argv[1:4]
p='/repo/'+f; s=open(p).read()
n,k=re.subn(pat,rep,s,count=1,flags=re.S)
if k!=1: print("MUTATION DID NOT APPLY"); sys.exit(0)
open(p,'w').write(n)
PY
(cd /verif && timeout 600 ./check "$@" 2>&1 | grep -v conda | cut -c1-300 | head -${MUT_LINES:-12})
cp /var/tmp/mut_backup.$$ /repo/$f; rm -f /var/tmp/mut_backup.$$; rm -rf $PYVC_OUT
cd /repo && git status --short | head -3
