#!/bin/bash
# usage: tools_confirm_seed.sh <PROP> <X>  -- confirm a sub-agent's seeded change in its scratch worktree
P=$1; X=$2; WT=/tmp/wt_$P; OUT=/tmp/seed_out/$P
cd $WT || exit 2
git checkout -q -- . ; git clean -fdq
cp $OUT/demo_$X.py $WT/demo_$X.py
/venv/bin/python demo_$X.py >/dev/null 2>&1; base=$?
git apply $OUT/patch_$X.diff || { echo "{\"applied\": false}" > $OUT/confirm_$X.json; exit 1; }
/venv/bin/python demo_$X.py > $OUT/demo_$X.out 2>&1; mut=$?
tests=$(/venv/bin/python -m pytest -q -p no:cacheprovider --timeout=900 --continue-on-collection-errors 2>&1 | tail -1)
git checkout -q -- . ; rm -f demo_$X.py
echo "{\"applied\": true, \"demo_exit_on_original\": $base, \"demo_exit_with_change\": $mut, \"tests\": \"$tests\"}" > $OUT/confirm_$X.json
cat $OUT/confirm_$X.json
