#!/bin/bash
# run the thorough tier of every claimed check on the unchanged tree, 2 at a time, evidence to a scratch directory (the committed evidence stays the quick tier's);
# one summary line per check to ${REGRESS_LOG:-/var/tmp/regress_thorough.log}.  Takes of the order of an hour.
cd /verif
ids=${*:-$(python3 -c "import json; print(' '.join(c['property_id'] for c in json.load(open('/verif/MANIFEST.json'))['checks']))")}
export LOG=${REGRESS_LOG:-/var/tmp/regress_thorough.log}
: > $LOG
export PYVC_OUT=/var/tmp/pyvc_thorough
mkdir -p $PYVC_OUT
printf "%s\n" $ids | xargs -P 2 -I{} sh -c 's=$(date +%s); ./check {} --tier thorough > /var/tmp/thorough_{}.out 2>&1; e=$?; grep -E "^(C[0-9]+ tier|VIOLATION|  undecided|  vacuity|  locked|  engine)" /var/tmp/thorough_{}.out | cut -c1-220 | sed "s/^/{}: /" >> $LOG; echo "{} exit=$e secs=$(( $(date +%s) - s ))" >> $LOG'
echo DONE >> $LOG
rm -rf $PYVC_OUT
