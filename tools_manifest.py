import json, sys
sys.path.insert(0, "/verif")
import importlib, manifest_src as M
props = [json.loads(l)["id"] for l in open("/verif/properties.jsonl")]
checks = []
for pid in props:
    if pid in M.CHECKS:
        c = M.CHECKS[pid]
        checks.append({
            "property_id": pid,
            "quick_cmd": "./check %s --tier quick" % pid,
            "thorough_cmd": "./check %s --tier thorough" % pid,
            "evidence_file": "evidence/%s.json" % pid,
            "replay_cmd_template": "./check --replay {path}",
            "engine": c.get("engine", "pyvc"),
            "level_claimed": {"category": c["category"], "text": c["text"], "design_ref": c["design"]},
            "level_note": c["note"],
            "technique": c.get("technique", M.TECH),
        })
na = []
for pid in props:
    if pid in M.CHECKS:
        continue
    na.append({"property_id": pid, "reason": M.NOT_APPLICABLE.get(pid, M.PENDING_REASON)})
man = {
    "version": 1,
    "setup_cmd": "./setup.sh",
    "hooks": {"guard": "TORNADO_VERIF", "enable": "no source hooks: contracts are sidecars in /verif/contracts; the checks import /repo's working tree directly",
              "baseline_off_cmd": "cd /repo && /venv/bin/python -m pytest -ra -q -p no:cacheprovider --timeout=900 --continue-on-collection-errors",
              "source_commits": [], "add_only": True},
    "engines": [
        {"name": "cvc", "path": "pyvc/cfront.py", "serves_properties": sorted(p for p in M.CHECKS if M.CHECKS[p].get("engine") == "cvc"),
         "kind_free_text": "C front end of the same verifier: symbolic execution of clang's JSON AST of the current C source inside a pyvc unit (byte-array memory, integer offsets, loop cut at contract invariants, in-bounds and no-overflow obligations), z3"},
        {"name": "pyvc", "path": "pyvc", "serves_properties": sorted(p for p in M.CHECKS if M.CHECKS[p].get("engine", "pyvc") == "pyvc"),
         "kind_free_text": "contract verifier built here: runs the real function objects of /repo on z3-backed proxy values (fork by re-execution), loops cut at contract invariants by a mechanical AST rewrite, one SMT obligation per clause per path (z3, then cvc5); the same contract bodies run on real values as replay oracle and bounded stand-in"},
    ],
    "checks": checks,
    "not_applicable": na,
    "notes": "See DESIGN.md. Exit 0 held / 1 VIOLATION / 3 machinery crash. known_findings.jsonl lists genuine defects (fixed or known).",
}
json.dump(man, open("/verif/MANIFEST.json", "w"), indent=1)
import jsonschema
jsonschema.validate(man, json.load(open("/root/.vp/MANIFEST.schema.json")))
print("MANIFEST ok: %d checks, %d not_applicable" % (len(checks), len(na)))
