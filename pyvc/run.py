"""Runner: explores every unit of a property's contract file, replays counterexamples on the
real code, runs the bounded stand-in, applies the known-findings policy, writes evidence.

Exit codes (DESIGN §5.1): 0 held / 1 violation (VIOLATION lines) / 3 internal crash.
`unknown`, time-outs, unsupported operations and tracebacks never become exit 1.
"""
from __future__ import annotations

import argparse
import glob
import hashlib
import importlib.util
import json
import multiprocessing as mp
import os
import random
import re
import sys
import time
import traceback

ROOT = os.path.dirname(os.path.dirname(os.path.abspath(__file__)))
sys.path.insert(0, ROOT)
if "/repo" not in sys.path:
    sys.path.insert(0, "/repo")

from pyvc import core, proxies, unit as U  # noqa: E402

# Where evidence/ and replays/ are written.  Default: /verif itself (what MANIFEST names).  The
# machinery's own self-tests (tools_seed.sh / tools_mutate.sh run the check on a deliberately broken
# /repo) set PYVC_OUT to a scratch directory, so that a record of a broken tree can never be left
# behind - or committed - as the evidence of the unchanged tree.
OUT = os.environ.get("PYVC_OUT") or ROOT


def load_contract(prop):
    files = sorted(glob.glob(os.path.join(ROOT, "contracts", prop.lower() + "_*.py")))
    if not files:
        raise SystemExit("no contract file for %s" % prop)
    U.Unit.registry = []
    spec = importlib.util.spec_from_file_location("contracts_" + prop.lower(), files[0])
    mod = importlib.util.module_from_spec(spec)
    sys.modules[spec.name] = mod
    spec.loader.exec_module(mod)
    units = [u for u in U.Unit.registry if u.prop == prop]
    return mod, units, files[0]


def known_findings():
    out = []
    p = os.path.join(ROOT, "known_findings.jsonl")
    if os.path.exists(p):
        for line in open(p):
            line = line.strip()
            if line and not line.startswith("#"):
                out.append(json.loads(line))
    return out


def base_name(oname):
    return re.sub(r"#p\d+$", "", oname)


# ------------------------------------------------------------------ one unit, in a worker process
def run_unit(args, on_partial=None):
    prop, uname, seed, tier, known_ids, ncross = args
    t0 = time.time()
    res = {"unit": uname, "obligations": [], "covers": [], "unsupported": [], "crashes": [],
           "paths": 0, "rewrite": [], "models": [], "cross": {"runs": 0, "effective": 0, "failed": []},
           "secs": {}, "exhausted": True, "targets": []}
    try:
        mod, units, _ = load_contract(prop)
        u = [x for x in units if x.name == uname][0]
        for (m, q) in u.targets:
            try:
                if m.endswith(".c"):
                    from pyvc import cfront
                    d = cfront.source_digest(os.path.join("/repo", m), q)
                else:
                    f = U.rewrite.get_function(U.load_repo_module(m), q.split(".<locals>")[0])
                    d = core.source_digest(f)
            except Exception as e:
                d = {"error": "%s: %s" % (type(e).__name__, e)}
            d["function"] = "%s.%s" % (m, q)
            res["targets"].append(d)
        # cross-check FIRST (cheap, concrete): random pre-states through the unmodified real function.  Its result is
        # sent to the parent at once, so that it survives if the symbolic exploration below has to be killed
        rng = random.Random(seed * 7919 + __import__("zlib").crc32(uname.encode()) % 1000)
        for i in range(ncross):
            cc = U.ConcUnitCtx(uname, prop, rng=rng)
            cc.known_ids = known_ids
            proxies.set_cx(cc)
            try:
                u.body(cc)
            except core.PathEnd:
                pass
            except core.Unsupported as e:
                res["cross"].setdefault("unsupported", []).append(str(e)[:100])
            except BaseException as e:
                res["cross"].setdefault("errors", []).append("%s: %s" % (type(e).__name__, str(e)[:200]))
            finally:
                _close_heap(cc)
            res["cross"]["runs"] += 1
            if not cc.assume_failed and cc.checked:
                res["cross"]["effective"] += 1
            if cc.failed and not cc.assume_failed:
                res["cross"]["failed"].append({"clauses": cc.failed[:5], "values": _jsonable(cc.values)})
        # the concrete runs may have closed / unset the thread's event loop; symbolic runs that create a real
        # asyncio.Future need one, as before the cross-check moved to the front
        try:
            import asyncio as _aio
            try:
                _aio.get_event_loop_policy().get_event_loop()
            except RuntimeError:
                _aio.set_event_loop(_aio.new_event_loop())
        except Exception:
            pass
        if on_partial is not None:
            try:
                part = dict(res)
                part["partial"] = True
                part["unsupported"] = [[0, "symbolic exploration did not finish (unit killed at its wall-clock limit): undecided"]]
                part["exhausted"] = False
                on_partial(part)
            except Exception:
                pass
        c = U.SymUnitCtx(uname, prop, seed)
        c.known_ids = known_ids
        if u.bounded:
            c.unroll = True       # small-scope symbolic: concrete small lengths, bounded depth
            c.deadline = time.time() + (90 if tier == "quick" else 600)
            res["bounded"] = u.bounded
        proxies.set_cx(c)
        old_budget = (core.Z3_TIMEOUT_MS, core.CVC5_TIMEOUT_MS)
        old_feas = core.FEAS_TIMEOUT_MS
        if u.feas_ms:
            core.FEAS_TIMEOUT_MS = u.feas_ms
        if u.z3_ms:
            core.Z3_TIMEOUT_MS = u.z3_ms
        if u.cvc5_ms is not None:
            core.CVC5_TIMEOUT_MS = u.cvc5_ms
        try:
            c.explore(u.body)
        finally:
            c.unroute()
            core.Z3_TIMEOUT_MS, core.CVC5_TIMEOUT_MS = old_budget
            core.FEAS_TIMEOUT_MS = old_feas
        res["paths"] = c.paths_run
        res["exhausted"] = c.exhausted
        res["rewrite"] = getattr(c, "rewrite_log", [])
        res["models"] = sorted(c.models_used)
        res["secs"] = {k: round(v, 3) for k, v in c.solver_secs.items()}
        res["unsupported"] = [list(x) for x in c.unsupported][:20]
        res["crashes"] = [list(x) for x in c.crashes][:10]
        res["covers"] = [list(x) for x in c.covers]
        # replay refuted obligations on the real code (state/input-level), one per distinct name
        seen = {}
        unroll_budget = [45.0]
        for o in c.obligations:
            d = o.summary()
            if o.status == "refuted":
                bn = o.name
                if bn not in seen:
                    seen[bn] = replay_obligation(u, prop, o, known_ids)
                    if seen[bn]["verdict"] != "confirmed" and not u.bounded and unroll_budget[0] > 0:
                        # counterexample completion: bounded unrolling, no loop cut (at most ~45 s per unit in total)
                        tu = time.time()
                        w = complete_by_unrolling(u, prop, o, known_ids, seed)
                        unroll_budget[0] -= time.time() - tu
                        if w is not None:
                            seen[bn] = w
                if seen[bn]["verdict"] != "confirmed":
                    # z3 answered sat but its model does not fail on the real code (string theory + uninterpreted functions:
                    # z3's sat answers are not always backed by a real model).  Second opinion: an `unsat` from cvc5 on the
                    # same query is a proof; anything else leaves the obligation as it was (undecided, never a violation).
                    try:
                        import z3 as _z3
                        s2 = _z3.Solver()
                        for cnd in o.pc:
                            s2.add(cnd)
                        s2.add(_z3.Not(o.goal))
                        r2, be = core._cvc5_check(s2.to_smt2(), u.cvc5_ms or core.CVC5_TIMEOUT_MS)
                    except Exception:
                        r2, be = "unknown", "cvc5"
                    if r2 == "unsat":
                        o.status, o.backend = "discharged", be
                        o.note = "z3 sat with a model that does not fail on the real code; cvc5 proves the query unsat"
                        d = o.summary()
                        if len(res["obligations"]) < 4000:
                            res["obligations"].append(d)
                        continue
                d["replay"] = seen[bn]
                d["model"] = model_text(o.model)
                d["goal"] = str(o.goal)[:600]
            if o.status != "discharged" or len(res["obligations"]) < 4000:
                res["obligations"].append(d)
        res["n_obligations"] = len(c.obligations)
        res["n_discharged"] = sum(1 for o in c.obligations if o.status == "discharged")
        res["samples"] = [sample_obligation(o) for o in c.obligations[:2]]
    except BaseException as e:
        res["crashes"].append([0, "%s: %s" % (type(e).__name__, e), traceback.format_exc()[-2000:]])
    res["wall"] = round(time.time() - t0, 3)
    return res


def _close_heap(cc):
    h = cc.ghost.get("heap") if isinstance(cc.ghost, dict) else None
    if h is not None and hasattr(h, "close"):
        h.close()


def _jsonable(v):
    try:
        json.dumps(v)
        return v
    except Exception:
        if isinstance(v, dict):
            return {str(k): _jsonable(x) for k, x in v.items()}
        if isinstance(v, (list, tuple)):
            return [_jsonable(x) for x in v]
        if isinstance(v, bytes):
            return "b:" + v.decode("latin1")
        return repr(v)[:200]


def model_text(m):
    if m is None:
        return None
    try:
        return {str(d): str(m[d])[:200] for d in m.decls()[:60]}
    except Exception:
        return str(m)[:2000]


def sample_obligation(o):
    try:
        import z3
        s = z3.Solver()
        for c in o.pc[:6]:
            s.add(c)
        s.add(z3.Not(o.goal))
        txt = s.to_smt2()
    except Exception as e:
        txt = "<%s>" % e
    return {"name": o.name, "kind": o.kind, "status": o.status, "backend": o.backend,
            "smt2_head": txt[:700]}


def replay_obligation(u, prop, o, known_ids, label="model"):
    """Run the same unit body on the real, unmodified code with the model's values."""
    cc = U.ConcUnitCtx(u.name, prop, model=o.model, choices=o.choices)
    cc.known_ids = known_ids
    proxies.set_cx(cc)
    out = {"verdict": "spurious", "via": label}
    try:
        u.body(cc)
    except core.PathEnd:
        pass
    except core.Unsupported as e:
        out["error"] = "unsupported in replay: %s" % e
    except BaseException as e:
        out["error"] = "%s: %s" % (type(e).__name__, str(e)[:300])
    finally:
        _close_heap(cc)
    out["values"] = _jsonable(cc.values)
    out["choices"] = [list(x) for x in (o.choices or [])]
    out["observed"] = str(cc.ghost.get("last_exc", ""))[:300] if isinstance(cc.ghost, dict) else ""
    if cc.assume_failed:
        out["verdict"] = "not-replayable"
        out["why"] = "model's pre-state does not satisfy the unit's assumptions on real values"
    elif o.name in cc.failed:
        out["verdict"] = "confirmed"
        out["failed_clauses"] = cc.failed[:5]
    elif o.kind in ("loop-preserve", "loop-entry"):
        out["verdict"] = "not-replayable"
        out["why"] = "obligation is about a loop-head state (after havoc)"
    elif o.name not in cc.checked:
        # "spurious" means: the real code was run on the model's values and satisfied the clause.  A replay
        # that never evaluated the clause (harness error, different path taken) shows nothing of the kind.
        out["verdict"] = "not-replayable"
        out["why"] = "the replay did not reach the clause on the model's values" + (
            " (%s)" % out["error"] if "error" in out else "")
    return out


def complete_by_unrolling(u, prop, o, known_ids, seed):
    """DESIGN §4.3: re-execute without loop cuts (bounded by decision depth) to obtain a complete
    input for an obligation already refuted with invariants.  Only searches for a witness."""
    c = U.SymUnitCtx(u.name, prop, seed)
    c.known_ids = known_ids
    c.unroll = True
    c.bfs = True
    loopk = o.kind in ("loop-preserve", "loop-entry")
    c.only_obligation = None if loopk else o.name
    c.deadline = time.time() + 20
    old_cap = core.PATH_CAP
    core.PATH_CAP = 200
    proxies.set_cx(c)
    try:
        c.explore(u.body)
    except BaseException:
        return None
    finally:
        c.unroute()
        core.PATH_CAP = old_cap
    for o2 in c.obligations:
        if (loopk or o2.name == o.name) and o2.status == "refuted":
            r = replay_obligation(u, prop, o2, known_ids, label="unrolled")
            if r["verdict"] == "confirmed":
                r["model"] = model_text(o2.model)
                if loopk:
                    r["witness_for"] = o2.name
                return r
    return None


def _unit_child(task, q):
    try:
        q.put(run_unit(task, on_partial=q.put))
    except BaseException as e:
        q.put({"unit": task[1], "obligations": [], "covers": [], "unsupported": [], "paths": 0, "rewrite": [], "models": [],
               "crashes": [[0, "%s: %s" % (type(e).__name__, e), traceback.format_exc()[-1500:]]],
               "cross": {"runs": 0, "effective": 0, "failed": []}, "secs": {}, "exhausted": False, "targets": [], "wall": 0})


def run_units_watchdog(tasks, jobs, limit_s):
    """one process per unit, hard wall-clock limit each (SMT string solving does not always honour its
    own timeout): an overrunning unit is killed and reported undecided(time limit), never a violation."""
    ctx = mp.get_context("fork")
    pending = list(enumerate(tasks))
    running, results, partials = {}, {}, {}
    while pending or running:
        while pending and len(running) < jobs:
            i, t = pending.pop(0)
            q = ctx.Queue()
            p = ctx.Process(target=_unit_child, args=(t, q))
            p.start()
            running[i] = (p, q, time.time(), t)
        time.sleep(0.05)
        for i, (p, q, t0, t) in list(running.items()):
            got = None
            try:
                got = q.get_nowait()
            except Exception:
                pass
            if got is not None and got.get("partial"):
                partials[i] = got
                got = None
            if got is not None:
                results[i] = got
                p.join(5)
                del running[i]
            elif not p.is_alive():
                try:
                    got = q.get(timeout=1)
                except Exception:
                    got = None
                if got is not None and got.get("partial"):
                    partials[i] = got
                    got = None
                results[i] = got or {"unit": t[1], "obligations": [], "covers": [], "paths": 0, "rewrite": [], "models": [],
                                     "unsupported": [[0, "unit process died without a result"]], "crashes": [],
                                     "cross": {"runs": 0, "effective": 0, "failed": []}, "secs": {}, "exhausted": False, "targets": [], "wall": 0}
                del running[i]
            elif time.time() - t0 > limit_s:
                p.terminate()
                p.join(5)
                if p.is_alive():
                    p.kill()
                results[i] = {"unit": t[1], "obligations": [], "covers": [], "paths": 0, "rewrite": [], "models": [],
                              "unsupported": [[0, "unit exceeded its wall-clock limit of %d s (solver did not return): undecided" % limit_s]],
                              "crashes": [], "cross": {"runs": 0, "effective": 0, "failed": []}, "secs": {}, "exhausted": False,
                              "targets": [], "wall": limit_s, "timed_out": True}
                if i in partials:
                    # the concrete cross-check of the unit finished before the exploration was killed: keep it
                    results[i]["cross"] = partials[i].get("cross", results[i]["cross"])
                    results[i]["targets"] = partials[i].get("targets", [])
                del running[i]
    return [results[i] for i in range(len(tasks))]


# ------------------------------------------------------------------ property-level driver
def check_property(prop, tier, seed, jobs=None):
    t0 = time.time()
    mod, units, cfile = load_contract(prop)
    kf = [k for k in known_findings() if k.get("property") == prop]
    known_ids = tuple(k["id"] for k in kf if k.get("status") == "known")
    ncross = 300 if tier == "quick" else 3000
    only = os.environ.get("PYVC_ONLY")
    if only:
        units = [u for u in units if re.search(only, u.name)]
    skipped_units = [u.name for u in units if tier not in u.tiers]
    units = [u for u in units if tier in u.tiers]
    tasks = [(prop, u.name, seed, tier, known_ids, ncross) for u in units]
    jobs = jobs or min(16, max(1, len(tasks)))
    unit_limit = int(os.environ.get("PYVC_UNIT_LIMIT_S", "150" if tier == "quick" else "900"))
    if os.environ.get("PYVC_SERIAL"):
        results = [run_unit(t) for t in tasks]
    else:
        results = run_units_watchdog(tasks, jobs, unit_limit)

    lock_path = os.path.join(ROOT, "obligations.lock.json")
    lock = json.load(open(lock_path)) if os.path.exists(lock_path) else {}
    locked = set(lock.get(prop, []))

    n_obl = sum(r.get("n_obligations", 0) for r in results if not r.get("bounded"))
    n_dis = sum(r.get("n_discharged", 0) for r in results if not r.get("bounded"))
    nb_obl = sum(r.get("n_obligations", 0) for r in results if r.get("bounded"))
    nb_dis = sum(r.get("n_discharged", 0) for r in results if r.get("bounded"))
    refuted, undecided, crashes = [], [], []
    discharged_names = set()
    for r in results:
        for o in r["obligations"]:
            if o["status"] == "refuted":
                refuted.append((r["unit"], o))
            elif o["status"] == "undecided":
                undecided.append({"name": o["name"], "why": o["note"]})
        for x in r["unsupported"]:
            undecided.append({"name": "%s/%s" % (prop, r["unit"]), "why": x[1]})
        for x in r["crashes"]:
            crashes.append({"unit": r["unit"], "what": x[1], "tb": x[2] if len(x) > 2 else ""})
    for r in results:
        bad = {o["name"] for o in r["obligations"] if o["status"] != "discharged"}
        # names discharged on every path
        # (obligation list may be truncated for discharged ones; names are few)
        for o in r["obligations"]:
            if o["status"] == "discharged" and o["name"] not in bad:
                discharged_names.add(o["name"])

    # vacuity: every unit must produce obligations and reach at least one satisfiable cover
    vacuous = []
    for r in results:
        if r.get("n_obligations", 0) == 0 and not r["crashes"]:
            vacuous.append("%s: no obligations generated" % r["unit"])
        if r["covers"] and not any(c[1] == "sat" for c in r["covers"]) and not r["cross"].get("effective"):
            vacuous.append("%s: no satisfiable cover (canary) - contradictory assumptions?" % r["unit"])
    missing_locked = sorted(n for n in locked if n not in discharged_names
                            and not any(o["name"] == n for _, o in refuted)
                            and (not only)
                            and not any(n.startswith("%s/%s/" % (prop, su)) for su in skipped_units))     # units of another tier
    # ---- stand-in (bounded, run-time contracts on the real code)
    standin = {"evaluations": 0, "distinct_nontrivial": 0, "failures": [], "rule": "", "samples": []}
    if hasattr(mod, "standin") and not os.environ.get("PYVC_NO_STANDIN"):
        try:
            proxies.set_cx(None)
            # a stand-in whose large bound costs seconds runs at that bound on every change (the quick tier of two properties missed defects their thorough tier found: F-56, F-57)
            standin = mod.standin("thorough" if getattr(mod, "STANDIN_ALWAYS_THOROUGH", False) else tier, seed)
        except BaseException as e:
            crashes.append({"unit": "standin", "what": "%s: %s" % (type(e).__name__, e),
                            "tb": traceback.format_exc()[-2000:]})

    # ---- verdicts
    os.makedirs(os.path.join(OUT, "replays", prop), exist_ok=True)
    for f in glob.glob(os.path.join(OUT, "replays", prop, "*.json")):
        os.remove(f)
    violations, known_lines, spurious = [], [], []
    demos = getattr(mod, "KNOWN_DEMOS", {})
    seen_names = set()
    for uname, o in refuted:
        name = o["name"]
        if name in seen_names:
            continue
        seen_names.add(name)
        rp = o.get("replay", {})
        confirmed = rp.get("verdict") == "confirmed"
        was_locked = name in locked
        if not confirmed and rp.get("verdict") == "spurious":
            spurious.append(name)
            undecided.append({"name": name, "why": "sat but the real code satisfies the clause on the model's values (spurious)"})
            continue
        if not confirmed and not was_locked:
            undecided.append({"name": name, "why": "refuted without a replayable witness and not previously discharged"})
            continue
        path = os.path.join("replays", prop, re.sub(r"[^A-Za-z0-9_.-]+", "_", name)[-150:] + ".json")
        json.dump({"property": prop, "obligation": name, "unit": uname, "kind": o["kind"],
                   "replay": rp, "model": o.get("model"), "goal": o.get("goal"),
                   "solver": o.get("backend"), "no_failing_input_found": not confirmed},
                  open(os.path.join(OUT, path), "w"), indent=1)
        violations.append((name, path, confirmed))
    for f in standin.get("failures", [])[:2]:
        fid = f.get("known")
        if fid and fid in known_ids:
            continue
        path = os.path.join("replays", prop, "standin_%d.json" % len(violations))
        json.dump({"property": prop, "standin_failure": f}, open(os.path.join(OUT, path), "w"), indent=1, default=str)
        violations.append(("standin:" + str(f.get("what", ""))[:80], path, True))
    for k in kf:
        if k.get("status") == "known":
            d = demos.get(k["id"])
            still = True
            if d is not None:
                try:
                    still = bool(d())
                except BaseException as e:
                    still = True
            if still:
                known_lines.append("KNOWN-FINDING: property=%s %s" % (prop, k.get("what", k["id"])))

    level_claimed = getattr(mod, "LEVEL", "proof")
    degraded = bool(undecided or crashes or vacuous or missing_locked)
    level = level_claimed
    if level_claimed == "proof" and (degraded or n_obl == 0 or n_dis != n_obl):
        level = "other"
    wall = round(time.time() - t0, 2)
    funcs = []
    for r in results:
        funcs.extend(r["targets"])
    trusted = sorted(set(sum((r["models"] for r in results), [])) | set(getattr(mod, "TRUSTED", [])))
    assumption_scan = scan_assumptions(cfile)
    samples = []
    for r in results:
        samples.extend(r.get("samples", [])[:1])
    samples = samples[:6] + standin.get("samples", [])[:4]
    if not samples:
        samples = [{"note": "no obligations generated"}]
    ev = {
        "property_id": prop, "tier": tier, "seed": seed, "level": level,
        "coverage": {
            "obligations": n_obl, "discharged": n_dis,
            "checker_cmd": "./check %s --tier %s" % (prop, tier),
            "trusted_base": trusted + assumption_scan,
            "explanation": getattr(mod, "EXPLANATION", "") + (
                " | degraded this run: %d undecided, %d crashes, %d vacuous, %d locked obligations not regenerated"
                % (len(undecided), len(crashes), len(vacuous), len(missing_locked)) if degraded else ""),
            "evaluations": max(1, standin.get("evaluations", 0) + sum(r["cross"]["runs"] for r in results)),
            "distinct_nontrivial": max(standin.get("distinct_nontrivial", 0)
                                       + sum(r["cross"]["effective"] for r in results), 0),
            "rule": (standin.get("rule", "") + " | cross-check: random pre-states satisfying the unit's requires/Inv "
                     "run through the unmodified function with the contract evaluated at run time; effective = "
                     "assumptions held and >=1 clause evaluated"),
            "samples": samples,
            "functions_under_contract": funcs,
            "bounded_symbolic": {"obligations": nb_obl, "discharged": nb_dis,
                                 "note": "units explored symbolically but with a stated bound (never counted in obligations/discharged)",
                                 "units": {r["unit"]: r["bounded"] for r in results if r.get("bounded")}},
            "units": [{"unit": r["unit"], "paths": r["paths"], "bounded": r.get("bounded"), "exhaustive_paths": r["exhausted"],
                       "obligations": r.get("n_obligations", 0), "discharged": r.get("n_discharged", 0),
                       "solver_secs": r["secs"], "wall_s": r["wall"],
                       "covers_sat": sum(1 for c in r["covers"] if c[1] == "sat"), "covers": len(r["covers"]),
                       "cross_check": {k: (v if not isinstance(v, list) else v[:3]) for k, v in r["cross"].items()}}
                      for r in results],
            "units_not_run_in_this_tier": skipped_units,
            "rewrite_diff": sum((r["rewrite"] for r in results), [])[:80],
            "undecided": undecided[:60],
            "vacuity": vacuous, "locked_not_regenerated": missing_locked[:40],
            "spurious_models": spurious[:20],
            "engine_crashes": [{"unit": c["unit"], "what": c["what"]} for c in crashes][:20],
            "bounded_standin": {k: v for k, v in standin.items() if k not in ("samples", "failures")},
            "standin_failures": standin.get("failures", [])[:10],
            "known_findings_matched": known_lines,
            "back_ends": {"z3": sum(r["secs"].get("z3", 0) for r in results),
                          "cvc5": sum(r["secs"].get("cvc5", 0) + r["secs"].get("z3+cvc5", 0) for r in results)},
        },
        "assumptions": sorted(set(getattr(mod, "ASSUMPTIONS", []) + [
            "A-ENGINE: proxies/loop-cut rewrite/stubs correct, exploration exhaustive (canaries + concrete cross-check on every run)",
            "A-SMT: z3 5.1 / cvc5 1.4 unsat answers are correct"])),
        "wall_s": wall, "violations": len(violations),
    }
    os.makedirs(os.path.join(OUT, "evidence"), exist_ok=True)
    ev_path = os.path.join(OUT, "evidence", prop + ".json")
    with open(ev_path + ".tmp", "w") as fh:
        json.dump(ev, fh, indent=1, default=str)
    os.replace(ev_path + ".tmp", ev_path)
    ev_problems = evidence_self_check(ev_path, prop, bool(violations or undecided or crashes or vacuous or missing_locked))

    # ---- report
    print("%s tier=%s units=%d paths=%d obligations=%d discharged=%d (+bounded-symbolic %d/%d) undecided=%d refuted=%d standin_evals=%d wall=%.1fs level=%s" % (
        prop, tier, len(results), sum(r["paths"] for r in results), n_obl, n_dis, nb_dis, nb_obl, len(undecided),
        len(seen_names), standin.get("evaluations", 0), wall, level))
    for x in undecided[:12]:
        print("  undecided: %s -- %s" % (x["name"], x["why"][:200]))
    for x in vacuous:
        print("  vacuity: %s" % x)
    for x in missing_locked[:8]:
        print("  locked obligation not regenerated: %s" % x)
    for c in crashes[:6]:
        print("  engine-crash[%s]: %s\n%s" % (c["unit"], c["what"], c["tb"]))
    for r in results:
        for f in r["cross"]["failed"][:2]:
            print("  cross-check contract failure in %s: %s values=%s" % (r["unit"], f["clauses"], str(f["values"])[:300]))
    for r in results:
        errs = r["cross"].get("errors") or []
        if errs:
            print("  cross-check harness errors in %s (%d): %s" % (r["unit"], len(errs), errs[0][:200]))
    for x in ev_problems:
        print("  evidence-self-check: %s" % x)
    for l in known_lines:
        print(l)
    for name, path, confirmed in violations:
        print("VIOLATION property=%s replay=%s obligation=%s%s" % (
            prop, _shown(path), name, "" if confirmed else " no-failing-input-found"))
    if os.environ.get("PYVC_WRITE_LOCK") and not violations:
        lock[prop] = sorted(set(discharged_names) | {n for n in locked if any(n.startswith("%s/%s/" % (prop, su)) for su in skipped_units)})
        json.dump(lock, open(lock_path, "w"), indent=0, sort_keys=True)
        print("  lock updated: %d names" % len(discharged_names))
    if violations:
        return 1
    # cross-check contract failures on the unchanged functions are violations found by the
    # run-time back end (concrete real execution) -- report them too
    cf = [(r["unit"], f) for r in results for f in r["cross"]["failed"]]
    if cf:
        rc = 0
        done = set()
        for uname, f in cf:
            if (uname, f["clauses"][0]) in done or len(done) >= 5:
                continue
            done.add((uname, f["clauses"][0]))
            fid = None
            path = os.path.join("replays", prop, "cross_%s.json" % re.sub(r"\W+", "_", uname))
            json.dump({"property": prop, "unit": uname, "cross_check_failure": f},
                      open(os.path.join(OUT, path), "w"), indent=1, default=str)
            print("VIOLATION property=%s replay=%s obligation=%s (run-time contract failure on a concrete pre-state)" % (
                prop, _shown(path), f["clauses"][0]))
            rc = 1
        return rc
    return 0


def _shown(path):
    return path if OUT == ROOT else os.path.join(OUT, path)


def evidence_self_check(path, prop, run_was_degraded):
    """Re-read the record just written and check it the way a consumer would: schema-valid, and - when
    the run was clean - at the level MANIFEST claims, with discharged == obligations at proof level.
    Returns a list of problems (printed; they never change the verdict)."""
    out = []
    try:
        ev = json.load(open(path))
        sp = os.path.join(ROOT, "pyvc", "EVIDENCE.schema.json")
        if os.path.exists(sp):
            import jsonschema
            for e in jsonschema.Draft202012Validator(json.load(open(sp))).iter_errors(ev):
                out.append("schema: %s at /%s" % (e.message[:160], "/".join(map(str, e.path))))
        man = json.load(open(os.path.join(ROOT, "MANIFEST.json")))
        claimed = [c["level_claimed"]["category"] for c in man["checks"] if c["property_id"] == prop]
        if claimed and not run_was_degraded:
            cov = ev["coverage"]
            if ev["level"] != claimed[0]:
                out.append("level %r differs from MANIFEST level_claimed.category %r on a clean run" % (ev["level"], claimed[0]))
            if claimed[0] == "proof" and cov["discharged"] != cov["obligations"]:
                out.append("proof level but discharged %d != obligations %d" % (cov["discharged"], cov["obligations"]))
    except Exception as e:
        out.append("could not re-read the evidence record: %s: %s" % (type(e).__name__, e))
    return out


def scan_assumptions(cfile):
    out = []
    try:
        for i, line in enumerate(open(cfile), 1):
            if re.search(r"\b(assume|assume_z3|trusted|external)\(", line) and not line.strip().startswith("#"):
                out.append("%s:%d %s" % (os.path.basename(cfile), i, line.strip()[:110]))
    except Exception:
        pass
    return out[:80]


def main(argv=None):
    import logging
    logging.getLogger("asyncio").setLevel(logging.CRITICAL + 1)
    for n in ("tornado.application", "tornado.general", "tornado.access"):
        logging.getLogger(n).setLevel(logging.CRITICAL + 1)
        logging.getLogger(n).propagate = False
    logging.getLogger("tornado").addHandler(logging.NullHandler())
    ap = argparse.ArgumentParser()
    ap.add_argument("prop", nargs="?")
    ap.add_argument("--tier", default=os.environ.get("VERIF_TIER", "quick"))
    ap.add_argument("--replay")
    ap.add_argument("--jobs", type=int)
    a = ap.parse_args(argv)
    seed = int(os.environ.get("VERIF_SEED", "0") or 0)
    if a.replay:
        d = json.load(open(a.replay))
        print(json.dumps(d, indent=1)[:4000])
        prop = d["property"]
        os.environ["PYVC_ONLY"] = "^" + re.escape(d.get("unit", "")) + "$" if d.get("unit") else ""
        return check_property(prop, "quick", seed)
    try:
        return check_property(a.prop, a.tier if a.tier in ("quick", "thorough") else "quick", seed, a.jobs)
    except SystemExit:
        raise
    except BaseException:
        traceback.print_exc()
        return 3


if __name__ == "__main__":
    sys.exit(main())
