"""Symbolic heap of futures + event-loop doubles (library model of asyncio.Future / IOLoop scheduling).

Future state: 0 PENDING, 1 RESULT, 2 EXC, 3 CANCELLED  (section 3 of DESIGN.md).
Symbolic mode: a future is a reference (z3 Int) into per-path arrays st/val/exc.  Pre-state
references are >= 0; futures allocated by the code under proof get fresh negative ids.
Concrete mode: real asyncio.Future objects put into the state the model dictates.
Done-callbacks are *scheduled*, never run inline (asyncio semantics); registrations are recorded
as ghost events so that a contract can check registration completeness.
"""
from __future__ import annotations

import asyncio
import collections

import z3

from . import core
from .proxies import SBool, SInt, SSeq, SDict, Proxy, cx, _iz

PENDING, RESULT, EXC, CANCELLED = 0, 1, 2, 3

# value tags: python objects <-> ints
V_NONE, V_TRUE, V_FALSE, V_INT = 0, 1, 2, 3


class SymExc(Exception):
    """An exception object stored in a pre-state future (identity = tag)."""
    def __init__(self, tag):
        super().__init__("symbolic exception")
        self.tag = tag


class SVal(Proxy):
    """Opaque value read from a future (only moved around, never inspected)."""
    __slots__ = ("t", "iv")

    def __init__(self, t, iv=None):
        self.t = t
        self.iv = iv          # integer payload travelling with the tag (when the tag is V_INT)

    def __repr__(self):
        return "SVal(%s)" % self.t


class Heap:
    def __init__(self, c):
        self.c = c
        self.st = z3.Array(c.fresh_name("st0"), z3.IntSort(), z3.IntSort())
        self.val = z3.Array(c.fresh_name("val0"), z3.IntSort(), z3.IntSort())
        self.exc = z3.Array(c.fresh_name("exc0"), z3.IntSort(), z3.IntSort())
        self.ival = z3.Array(c.fresh_name("ival0"), z3.IntSort(), z3.IntSort())
        self.st0, self.val0, self.exc0, self.ival0 = self.st, self.val, self.exc, self.ival
        # ground typing (one instance per future the unit creates) instead of the universal axiom: units whose
        # futures are all named individually ask for it (c.ground_heap) so that *satisfiable* queries - refutations -
        # are decided instead of coming back `unknown` from quantifier instantiation
        self.unroll = getattr(c, "unroll", False) or getattr(c, "ground_heap", False)
        if not self.unroll:
            i = z3.Int("hid")
            sel = z3.Select(self.st0, i)
            c.assume_z3(z3.ForAll([i], z3.And(sel >= 0, sel <= 3), patterns=[sel]))
        self.nalloc = 0
        self.objs = []            # registered python objects (values / exceptions)
        self.done_cbs = []        # (future, callback)
        self.events = []          # ghost event log
        c.use_model("asyncio.Future state machine (DESIGN §3; A-ASYNCIO)")

    def tag_of(self, v):
        if v is None:
            return z3.IntVal(V_NONE)
        if v is True:
            return z3.IntVal(V_TRUE)
        if v is False:
            return z3.IntVal(V_FALSE)
        if isinstance(v, SVal):
            return v.t
        if isinstance(v, SymExc):
            return v.tag if not isinstance(v.tag, int) else z3.IntVal(v.tag)
        return z3.IntVal(self._reg(v))

    def _reg(self, v):
        for k, o in enumerate(self.objs):
            if o is v:
                return 1000 + k
        self.objs.append(v)
        return 1000 + len(self.objs) - 1

    def obj_of(self, t, ref=None):
        t = z3.simplify(t)
        if z3.is_int_value(t):
            n = t.as_long()
            if n == V_NONE:
                return None
            if n == V_TRUE:
                return True
            if n == V_FALSE:
                return False
            if n == V_INT and ref is not None:
                return SInt(z3.simplify(z3.Select(self.ival, ref)))
            if 1000 <= n < 1000 + len(self.objs):
                return self.objs[n - 1000]
        return SVal(t, z3.Select(self.ival, ref) if ref is not None else None)

    def new(self):
        self.nalloc += 1
        ref = z3.IntVal(-self.nalloc)
        self.st = z3.Store(self.st, ref, z3.IntVal(PENDING))
        return SFut(self, ref)


def heap(c=None):
    c = c or cx()
    h = c.ghost.get("heap")
    if h is None:
        h = c.ghost["heap"] = (Heap(c) if c.symbolic else CHeap(c))
    return h


class SFut(asyncio.Future):
    """Symbolic future.  Subclasses asyncio.Future so that isinstance/is_future in the real code
    hold; every method is overridden and the C-level state is never initialised or used."""

    def __new__(cls, h, ref):
        o = asyncio.Future.__new__(cls)
        return o

    def __init__(self, h, ref):  # deliberately no super().__init__: no event loop needed
        object.__setattr__(self, "_h", h)
        object.__setattr__(self, "ref", ref)

    # -- state access
    def _st(self):
        return z3.simplify(z3.Select(self._h.st, self.ref))

    def state(self):
        return SInt(self._st())

    def done(self):
        return SBool(self._st() != PENDING)

    def cancelled(self):
        return SBool(self._st() == CANCELLED)

    def result(self):
        c = cx()
        s = self._st()
        if c.branch(s == CANCELLED):
            raise asyncio.CancelledError()
        if c.branch(s == PENDING):
            raise asyncio.InvalidStateError("Result is not set.")
        if c.branch(s == EXC):
            raise self._exc_obj()
        return self._h.obj_of(z3.Select(self._h.val, self.ref), self.ref)

    def _exc_obj(self):
        o = self._h.obj_of(z3.Select(self._h.exc, self.ref))
        if isinstance(o, BaseException):
            return o
        return SymExc(o.t if isinstance(o, SVal) else o)

    def exception(self):
        c = cx()
        s = self._st()
        if c.branch(s == CANCELLED):
            raise asyncio.CancelledError()
        if c.branch(s == PENDING):
            raise asyncio.InvalidStateError("Exception is not set.")
        if c.branch(s == EXC):
            return self._exc_obj()
        return None

    def set_result(self, v):
        if cx().branch(self._st() != PENDING):
            raise asyncio.InvalidStateError("invalid state")
        h = self._h
        h.st = z3.Store(h.st, self.ref, z3.IntVal(RESULT))
        if isinstance(v, SInt) or (isinstance(v, int) and not isinstance(v, bool)):
            h.val = z3.Store(h.val, self.ref, z3.IntVal(V_INT))
            h.ival = z3.Store(h.ival, self.ref, _iz(v))
        else:
            h.val = z3.Store(h.val, self.ref, h.tag_of(v))
            if isinstance(v, SVal) and v.iv is not None:
                h.ival = z3.Store(h.ival, self.ref, v.iv)
        h.events.append(("set_result", self, v))

    def set_exception(self, e):
        if cx().branch(self._st() != PENDING):
            raise asyncio.InvalidStateError("invalid state")
        if isinstance(e, type):
            e = e()
        if isinstance(e, StopIteration):
            raise TypeError("StopIteration interacts badly with generators")
        h = self._h
        h.st = z3.Store(h.st, self.ref, z3.IntVal(EXC))
        h.exc = z3.Store(h.exc, self.ref, h.tag_of(e))
        h.events.append(("set_exception", self, e))

    def cancel(self, msg=None):
        if cx().branch(self._st() != PENDING):
            return False
        h = self._h
        h.st = z3.Store(h.st, self.ref, z3.IntVal(CANCELLED))
        h.events.append(("cancel", self))
        return True

    def add_done_callback(self, fn, *, context=None):
        self._h.done_cbs.append((self, fn))
        self._h.events.append(("add_done_callback", self, fn))

    def remove_done_callback(self, fn):
        n = len(self._h.done_cbs)
        self._h.done_cbs = [(f, g) for (f, g) in self._h.done_cbs if not (f is self and g is fn)]
        return n - len(self._h.done_cbs)

    def get_loop(self):
        return None

    def __await__(self):
        r = yield self
        return r

    __iter__ = __await__

    def __eq__(self, o):
        if isinstance(o, SFut):
            e = z3.simplify(self.ref == o.ref)
            if z3.is_true(e):
                return True
            if z3.is_false(e):
                return False
            return SBool(e)
        return False

    def __ne__(self, o):
        r = self.__eq__(o)
        return (not r) if isinstance(r, bool) else ~r

    def __hash__(self):
        r = z3.simplify(self.ref)
        if z3.is_int_value(r):
            return hash(("SFut", r.as_long()))
        raise core.Unsupported("hash() of a symbolic future reference")

    def __repr__(self):
        return "SFut(%s)" % self.ref

    def __del__(self):
        pass


def fut_wrap(h):
    return lambda t: SFut(h, t)


def fut_unwrap(f):
    if isinstance(f, SFut):
        return f.ref
    raise core.Unsupported("non-future stored into a future sequence: %r" % (f,))


# ------------------------------------------------------------------ concrete heap
class CHeap:
    def __init__(self, c):
        self.c = c
        self.loop = asyncio.new_event_loop()
        asyncio.set_event_loop(self.loop)
        self.by_id = {}
        self.created = []
        self.done_cbs = []
        self.events = []
        self.st0 = z3.Array(c.fresh_name("st0"), z3.IntSort(), z3.IntSort())
        self.val0 = z3.Array(c.fresh_name("val0"), z3.IntSort(), z3.IntSort())
        self.exc0 = z3.Array(c.fresh_name("exc0"), z3.IntSort(), z3.IntSort())
        self.ival0 = z3.Array(c.fresh_name("ival0"), z3.IntSort(), z3.IntSort())
        self.nalloc = 0

    def close(self):
        try:
            self.loop.close()
        except Exception:
            pass
        asyncio.set_event_loop(None)

    def new(self):
        f = self.loop.create_future()
        self.created.append(f)
        return f

    def from_id(self, i):
        if i in self.by_id:
            return self.by_id[i]
        c = self.c
        f = self.loop.create_future()
        if c.model is not None:
            s = c.model.eval(z3.Select(self.st0, z3.IntVal(i)), model_completion=True).as_long()
            v = c.model.eval(z3.Select(self.val0, z3.IntVal(i)), model_completion=True).as_long()
            e = c.model.eval(z3.Select(self.exc0, z3.IntVal(i)), model_completion=True).as_long()
            iv = c.model.eval(z3.Select(self.ival0, z3.IntVal(i)), model_completion=True).as_long()
        else:
            s = c.rng.choice([0, 0, 1, 2, 3])
            v = c.rng.choice([0, 1, 2, 3, 7])
            e = c.rng.randint(0, 3)
            iv = c.rng.randint(-2, 9)
        if s == RESULT:
            f.set_result({0: None, 1: True, 2: False}.get(v, iv if v == 3 else ("val", v)))
        elif s == EXC:
            f.set_exception(SymExc(e))
            f.exception()  # mark retrieved (no "never retrieved" log noise)
        elif s == CANCELLED:
            f.cancel()
        self.by_id[i] = f
        f._pyvc_id = i
        return f


def st(f):
    """state code of a future (symbolic or real)."""
    if isinstance(f, SFut):
        return f.state()
    if not f.done():
        return PENDING
    if f.cancelled():
        return CANCELLED
    return EXC if f.exception() is not None else RESULT


def result_is(f, v):
    """future f holds RESULT v (v: None/True/False or a python object)."""
    if isinstance(f, SFut):
        h = f._h
        if isinstance(v, SInt) or (isinstance(v, int) and not isinstance(v, bool)):
            return SBool(z3.And(f._st() == RESULT, z3.Select(h.val, f.ref) == V_INT, z3.Select(h.ival, f.ref) == _iz(v)))
        return SBool(z3.And(f._st() == RESULT, z3.Select(h.val, f.ref) == h.tag_of(v)))
    if st(f) != RESULT:
        return False
    r = f.result()
    return (r is v) or (type(r) is type(v) and r == v)


def result_isinstance(f, cls):
    if isinstance(f, SFut):
        h = f._h
        tags = [z3.Select(h.val, f.ref) == 1000 + k for k, o in enumerate(h.objs) if isinstance(o, cls)]
        return SBool(z3.And(f._st() == RESULT, z3.Or(tags) if tags else z3.BoolVal(False)))
    return st(f) == RESULT and isinstance(f.result(), cls)


def exc_isinstance(f, cls):
    if isinstance(f, SFut):
        h = f._h
        tags = [z3.Select(h.exc, f.ref) == 1000 + k for k, o in enumerate(h.objs) if isinstance(o, cls)]
        return SBool(z3.And(f._st() == EXC, z3.Or(tags) if tags else z3.BoolVal(False)))
    return st(f) == EXC and isinstance(f.exception(), cls)


def new_future():
    return heap().new()


def pre_future(c, name):
    """A future that exists in the pre-state, in an arbitrary state."""
    h = heap(c)
    if c.symbolic:
        ref = z3.Int(c.fresh_name(name))
        c.assume_z3(ref >= 0)
        if h.unroll:
            c.assume_z3(z3.And(z3.Select(h.st0, ref) >= 0, z3.Select(h.st0, ref) <= 3))
        return SFut(h, ref)
    i = c.int(name, 0, 5)
    if i < 0:
        c.assume_failed = True
        raise core.PathEnd()
    return h.from_id(i)


def fut_seq(c, name, kind="deque"):
    """A deque/list of pre-state futures of arbitrary length."""
    h = heap(c)
    an, ln, hn = c.fresh_name(name + ".arr"), c.fresh_name(name + ".lo"), c.fresh_name(name + ".hi")
    arr = z3.Array(an, z3.IntSort(), z3.IntSort())
    if c.symbolic and h.unroll:
        # witness search (counterexample completion): small concrete lengths, symbolic elements,
        # a real deque/list of symbolic futures -- no quantifiers, the code runs natively on it
        n = c.choose(name + ".len", [2, 1, 0, 3])
        lo, hi = z3.Int(ln), z3.Int(hn)
        c.assume_z3(z3.And(lo == 0, hi == n))
        items = []
        for k in range(n):
            ref = z3.Select(arr, k)
            c.assume_z3(z3.And(ref >= 0, z3.Select(h.st0, ref) >= 0, z3.Select(h.st0, ref) <= 3))
            items.append(SFut(h, ref))
        return collections.deque(items) if kind == "deque" else list(items)
    if c.symbolic:
        lo, hi = z3.Int(ln), z3.Int(hn)
        c.assume_z3(lo <= hi)
        i = z3.Int("sid")
        sel = z3.Select(arr, i)
        c.assume_z3(z3.ForAll([i], sel >= 0, patterns=[sel]))
        return SSeq(arr, lo, hi, fut_wrap(h), fut_unwrap, kind)
    if c.model is not None:
        lo = c.model.eval(z3.Int(ln), model_completion=True).as_long()
        hi = c.model.eval(z3.Int(hn), model_completion=True).as_long()
        ids = [c.model.eval(z3.Select(arr, z3.IntVal(k)), model_completion=True).as_long()
               for k in range(lo, min(hi, lo + 64))]
    else:
        n = c.rng.randint(0, 4)
        ids = c.rng.sample(range(0, 6), n)      # distinct futures (a queue never holds the same future twice)
    c.values[name] = ids
    if any(i < 0 for i in ids):
        c.assume_failed = True
        raise core.PathEnd()
    items = [h.from_id(i) for i in ids]
    return collections.deque(items) if kind == "deque" else list(items)


def seq_len(s):
    return s.length() if isinstance(s, SSeq) else len(s)


def seq_at(s, i):
    return s.at(i) if isinstance(s, SSeq) else s[i]


def seq_forall(s, pred):
    """forall elements e of s (in order, with index): pred(e, i)."""
    from .proxies import And as _And
    if not isinstance(s, SSeq) and cx() is not None and cx().symbolic:
        rs = [pred(e, k) for k, e in enumerate(s)]
        return _And(*rs) if rs else True
    if isinstance(s, SSeq):
        i = z3.Int("k!%d" % next(_q))
        e = s.wrap(z3.Select(s.arr, i))
        body = core._b(pred(e, SInt(i - s.lo)))
        return SBool(z3.ForAll([i], z3.Implies(z3.And(s.lo <= i, i < s.hi), body),
                               patterns=[z3.Select(s.arr, i)]))
    return all(core._truth(pred(e, k)) for k, e in enumerate(s))


import itertools
_q = itertools.count()


def snapshot_seq(s):
    """old() of a sequence."""
    return s.clone() if isinstance(s, SSeq) else type(s)(s)


class HeapSnap:
    """old() of the future heap: lets specs read pre-state future states."""
    def __init__(self, c):
        h = heap(c)
        self.sym = c.symbolic
        if self.sym:
            self.st, self.val, self.exc, self.ival, self.h = h.st, h.val, h.exc, h.ival, h
        else:
            self.states = {id(f): st(f) for f in h.by_id.values()}

    def st_of(self, f):
        if self.sym:
            return SInt(z3.simplify(z3.Select(self.st, f.ref)))
        return self.states.get(id(f), PENDING)


# ------------------------------------------------------------------ event loop double
class TimerHandle:
    def __init__(self, deadline, cb):
        self.deadline, self.cb, self.removed = deadline, cb, False


class LoopDouble:
    """Stands for IOLoop.current(): records registrations as ghost events (both modes)."""
    def __init__(self, c):
        self.c = c
        self.timers = []
        self.callbacks = []
        self.removed = []
        self.futures = []

    def time(self):
        t = self.c.ghost.get("now")
        if t is None:
            t = self.c.ghost["now"] = self.c.real("now")
        return t

    def add_timeout(self, deadline, callback, *a, **kw):
        h = TimerHandle(deadline, callback)
        self.timers.append(h)
        return h

    def call_later(self, delay, callback, *a, **kw):
        return self.add_timeout(("later", delay), callback)

    def call_at(self, when, callback, *a, **kw):
        return self.add_timeout(when, callback)

    def remove_timeout(self, h):
        h.removed = True
        self.removed.append(h)

    def add_callback(self, cb, *a, **kw):
        self.callbacks.append((cb, a, kw))

    def add_future(self, fut, cb):
        self.futures.append((fut, cb))

    def live_timers(self):
        return [h for h in self.timers if not h.removed]


def loop_double(c=None):
    c = c or cx()
    l = c.ghost.get("loop")
    if l is None:
        l = c.ghost["loop"] = LoopDouble(c)
    return l


# ------------------------------------------------------------------ generic havoc (loop cuts, awaits)
def havoc_heap(c):
    """Replace the future heap by fresh arrays (sound over-approximation of 'futures may change')."""
    if not c.symbolic:
        return
    h = heap(c)
    h.st = z3.Array(c.fresh_name("h_st"), z3.IntSort(), z3.IntSort())
    h.val = z3.Array(c.fresh_name("h_val"), z3.IntSort(), z3.IntSort())
    h.exc = z3.Array(c.fresh_name("h_exc"), z3.IntSort(), z3.IntSort())
    h.ival = z3.Array(c.fresh_name("h_ival"), z3.IntSort(), z3.IntSort())
    i = z3.Int("hid")
    sel = z3.Select(h.st, i)
    c.assume_z3(z3.ForAll([i], z3.And(sel >= 0, sel <= 3), patterns=[sel]))


def havoc_object(c, obj, skip=()):
    """Replace every proxy-valued attribute of obj by a fresh value of the same sort (in place for
    SSeq/SDict so aliases see it).  Used at loop heads and suspension points: the invariant / rely
    then says what is known."""
    if not c.symbolic:
        return
    from .proxies import SStr, SReal
    for k, v in list(vars(obj).items()):
        if k in skip:
            continue
        if isinstance(v, SInt):
            setattr(obj, k, c.int("h_" + k))
        elif isinstance(v, SBool):
            setattr(obj, k, c.bool("h_" + k))
        elif isinstance(v, SReal):
            setattr(obj, k, c.real("h_" + k))
        elif isinstance(v, SStr):
            setattr(obj, k, c.bytes("h_" + k) if v.is_bytes else c.str("h_" + k))
        elif isinstance(v, SSeq):
            v.arr = z3.Array(c.fresh_name("h_%s.arr" % k), z3.IntSort(), v.arr.sort().range())
            v.lo = z3.Int(c.fresh_name("h_%s.lo" % k))
            v.hi = z3.Int(c.fresh_name("h_%s.hi" % k))
            c.assume_z3(v.lo <= v.hi)
            if v.arr.sort().range() == z3.IntSort() and v.unwrap is fut_unwrap:
                i = z3.Int("sid")
                sel = z3.Select(v.arr, i)
                c.assume_z3(z3.ForAll([i], sel >= -1000000, patterns=[sel]))
        elif isinstance(v, SDict):
            v.has = z3.Array(c.fresh_name("h_%s.has" % k), v.has.sort().domain(), z3.BoolSort())
            v.val = z3.Array(c.fresh_name("h_%s.val" % k), v.val.sort().domain(), v.val.sort().range())
            havoc_container(c, k, v)


def heap_eq(c, snap):
    """current future states == snapshot (frame clause)."""
    h = heap(c)
    if c.symbolic:
        return SBool(z3.And(h.st == snap.st, h.val == snap.val, h.exc == snap.exc, h.ival == snap.ival))
    return all(st(f) == s for f, s in ((f, snap.states[id(f)]) for f in h.by_id.values() if id(f) in snap.states))


def heap_eq_except(c, snap, f, newstate):
    """current states == snapshot except future f, which is now in `newstate`."""
    h = heap(c)
    if c.symbolic:
        i = z3.Int("fid")
        return SBool(z3.And(
            z3.ForAll([i], z3.Implies(i != f.ref, z3.Select(h.st, i) == z3.Select(snap.st, i)),
                      patterns=[z3.Select(h.st, i)]),
            z3.Select(h.st, f.ref) == newstate))
    ok = st(f) == newstate
    for g in h.by_id.values():
        if g is not f and id(g) in snap.states:
            ok = ok and st(g) == snap.states[id(g)]
    return ok


def fut_set(c, name, maxn=3):
    """A python set of distinct pre-state futures (bounded: |set| <= maxn; states symbolic)."""
    h = heap(c)
    if c.symbolic:
        n = c.choose(name + ".size", list(range(maxn, -1, -1)))
        out = set()
        for k in range(n):
            ref = z3.IntVal(100 + k)
            c.assume_z3(z3.And(z3.Select(h.st0, ref) >= 0, z3.Select(h.st0, ref) <= 3))
            out.add(SFut(h, ref))
        c.ghost.setdefault("sets", {})[name] = n
        return out
    if c.model is not None:
        n = dict(c.choices).get(name + ".size")
        n = maxn - n if n is not None else 0
    else:
        n = c.rng.randint(0, maxn)
    return {h.from_id(100 + k) for k in range(n)}


def done_callbacks(c):
    """(future, callback) registrations: ghost list (symbolic) / real futures' callback lists."""
    h = heap(c)
    if c.symbolic:
        return list(h.done_cbs)
    out = []
    for f in list(h.by_id.values()) + list(h.created):
        for cb in getattr(f, "_callbacks", None) or []:
            out.append((f, cb[0] if isinstance(cb, tuple) else cb))
    return out


def members_sorted(fs):
    """deterministic order for a python set of futures (same in symbolic and concrete mode)."""
    def key(f):
        if isinstance(f, SFut):
            r = z3.simplify(f.ref)
            return r.as_long() if z3.is_int_value(r) else 0
        return getattr(f, "_pyvc_id", 0)
    return sorted(fs, key=key)


# ------------------------------------------------------------------ sequences of ints and of (item, future) pairs
def int_seq(c, name, kind="deque"):
    an, ln, hn = c.fresh_name(name + ".arr"), c.fresh_name(name + ".lo"), c.fresh_name(name + ".hi")
    arr = z3.Array(an, z3.IntSort(), z3.IntSort())
    if c.symbolic and getattr(c, "unroll", False):
        n = c.choose(name + ".len", [2, 1, 0, 3])
        c.assume_z3(z3.And(z3.Int(ln) == 0, z3.Int(hn) == n))
        items = [SInt(z3.Select(arr, k)) for k in range(n)]
        return collections.deque(items) if kind == "deque" else list(items)
    if c.symbolic:
        lo, hi = z3.Int(ln), z3.Int(hn)
        c.assume_z3(lo <= hi)
        return SSeq(arr, lo, hi, lambda t: SInt(t), lambda v: _iz(v), kind)
    if c.model is not None:
        lo = c.model.eval(z3.Int(ln), model_completion=True).as_long()
        hi = c.model.eval(z3.Int(hn), model_completion=True).as_long()
        items = [c.model.eval(z3.Select(arr, z3.IntVal(k)), model_completion=True).as_long()
                 for k in range(lo, min(hi, lo + 64))]
    else:
        items = [c.rng.randint(-2, 9) for _ in range(c.rng.randint(0, 4))]
    c.values[name] = items
    return collections.deque(items) if kind == "deque" else list(items)


_PAIR = [None]


def pair_sort():
    if _PAIR[0] is None:
        d = z3.Datatype("ItemFut")
        d.declare("mk", ("item", z3.IntSort()), ("fut", z3.IntSort()))
        _PAIR[0] = d.create()
    return _PAIR[0]


def pair_seq(c, name):
    """deque of (item:int, future) tuples (Queue._putters)."""
    h = heap(c)
    PS = pair_sort()
    an, ln, hn = c.fresh_name(name + ".arr"), c.fresh_name(name + ".lo"), c.fresh_name(name + ".hi")
    arr = z3.Array(an, z3.IntSort(), PS)
    wrap = lambda t: (SInt(z3.simplify(PS.item(t))), SFut(h, z3.simplify(PS.fut(t))))
    unwrap = lambda p: PS.mk(_iz(p[0]), fut_unwrap(p[1]))
    if c.symbolic and getattr(c, "unroll", False):
        n = c.choose(name + ".len", [2, 1, 0, 3])
        c.assume_z3(z3.And(z3.Int(ln) == 0, z3.Int(hn) == n))
        items = []
        for k in range(n):
            ref = PS.fut(z3.Select(arr, k))
            c.assume_z3(z3.And(ref >= 0, z3.Select(h.st0, ref) >= 0, z3.Select(h.st0, ref) <= 3))
            items.append(wrap(z3.Select(arr, k)))
        return collections.deque(items)
    if c.symbolic:
        lo, hi = z3.Int(ln), z3.Int(hn)
        c.assume_z3(lo <= hi)
        i = z3.Int("pid")
        sel = z3.Select(arr, i)
        c.assume_z3(z3.ForAll([i], PS.fut(sel) >= 0, patterns=[sel]))
        return SSeq(arr, lo, hi, wrap, unwrap, "deque")
    if c.model is not None:
        lo = c.model.eval(z3.Int(ln), model_completion=True).as_long()
        hi = c.model.eval(z3.Int(hn), model_completion=True).as_long()
        items = []
        for k in range(lo, min(hi, lo + 64)):
            it = c.model.eval(PS.item(z3.Select(arr, z3.IntVal(k))), model_completion=True).as_long()
            fi = c.model.eval(PS.fut(z3.Select(arr, z3.IntVal(k))), model_completion=True).as_long()
            items.append((it, fi))
    else:
        items = [(c.rng.randint(-2, 9), fi) for fi in c.rng.sample(range(0, 6), c.rng.randint(0, 3))]
    c.values[name] = items
    if any(fi < 0 for _, fi in items):
        c.assume_failed = True
        raise core.PathEnd()
    return collections.deque((it, h.from_id(fi)) for it, fi in items)


def havoc_container(c, name, v):
    if isinstance(v, SSeq):
        v.arr = z3.Array(c.fresh_name("h_%s.arr" % name), z3.IntSort(), v.arr.sort().range())
        v.lo = z3.Int(c.fresh_name("h_%s.lo" % name))
        v.hi = z3.Int(c.fresh_name("h_%s.hi" % name))
        c.assume_z3(v.lo <= v.hi)
    elif isinstance(v, SDict):
        v.has = z3.Array(c.fresh_name("h_%s.has" % name), v.has.sort().domain(), z3.BoolSort())
        v.val = z3.Array(c.fresh_name("h_%s.val" % name), v.val.sort().domain(), v.val.sort().range())
        v.size = z3.Int(c.fresh_name("h_%s.size" % name))
        v.enum = z3.Array(c.fresh_name("h_%s.enum" % name), z3.IntSort(), v.has.sort().domain())
        v.idx = z3.Array(c.fresh_name("h_%s.idx" % name), v.has.sort().domain(), z3.IntSort())
        c.assume_z3(v.wf())
        c.use_model("dict model: len == number of keys (SDict.wf, assumed after havoc)")


def new_int_dict(c, name):
    """empty dict int -> int as an SDict."""
    has = z3.K(z3.IntSort(), z3.BoolVal(False))
    val = z3.K(z3.IntSort(), z3.IntVal(0))
    return SDict(has, val, z3.IntVal(0), lambda k: _iz(k), lambda t: SInt(t), lambda v: _iz(v))


def str_dict(c, name, val_sort=None, vwrap=None, vun=None, wf=True):
    """pre-state dict with string keys (symbolic mode only): arbitrary key set, opaque values."""
    from .proxies import SStr, _sz
    vs = val_sort if val_sort is not None else z3.IntSort()
    has = z3.Array(c.fresh_name(name + ".has"), z3.StringSort(), z3.BoolSort())
    val = z3.Array(c.fresh_name(name + ".val"), z3.StringSort(), vs)
    size = z3.Int(c.fresh_name(name + ".size"))
    d = SDict(has, val, size, lambda k: _sz(k), vwrap or (lambda t: SVal(t)), vun or (lambda v: v.t if isinstance(v, SVal) else v),
              enum=z3.Array(c.fresh_name(name + ".enum"), z3.IntSort(), z3.StringSort()),
              idx=z3.Array(c.fresh_name(name + ".idx"), z3.StringSort(), z3.IntSort()))
    if wf:
        c.assume_z3(d.wf())
        c.use_model("dict model: len == number of keys (SDict.wf)")
    return d
