"""cvc — a small verification-condition generator for C functions, over clang's JSON AST (DESIGN §2.7).

The function's AST is produced on every run by
    clang-14 -fsyntax-only -Xclang -ast-dump=json -Xclang -ast-dump-filter=<name> <file>
and *executed symbolically* inside a pyvc unit (so forking, obligations, covers, replay and evidence are the
engine's own).  Supported subset = what tornado/speedups.c:websocket_mask uses; anything else raises
core.Unsupported (the unit is then undecided, never silently mis-modelled).

Semantics (stated assumptions, A-CMEM):
  * memory = named regions, each a z3 Array Int -> BitVec(8) with a size; pointers are (region, offset) with
    *mathematical integer* offsets; every access emits an in-bounds obligation, pointer arithmetic must stay
    within [0, size] (one past the end allowed);
  * Py_ssize_t / long / int values are mathematical integers with an explicit no-overflow obligation at each
    arithmetic step; uint32_t / uint64_t / char values are bit-vectors (wrap-around is defined behaviour);
  * a uintN_t access through a cast pointer is the concatenation of N/8 bytes (little- or big-endian, chosen by
    the unit); alignment and effective-type rules of ISO C are not modelled (the code relies on the platform
    tolerating them, as does the compiled artefact);
  * loops are cut at the invariant supplied by the contract (entry / preservation obligations; havoc of the
    variables assigned in the body and of every writable region);
  * calls are externals given by the contract (`externals[name](ex, node, args)`).
"""
from __future__ import annotations

import hashlib
import json
import os
import subprocess

import z3

from . import core
from .proxies import SBool

PY_INCLUDE_CANDIDATES = ["/root/.pyenv/versions/3.12.1/include/python3.12"]
_AST_CACHE = {}


def python_include():
    import sysconfig
    inc = sysconfig.get_paths().get("include")
    for p in [inc] + PY_INCLUDE_CANDIDATES:
        if p and os.path.exists(os.path.join(p, "Python.h")):
            return p
    raise core.Unsupported("Python.h not found")


def function_ast(path, name):
    st = os.stat(path)
    key = (path, name, st.st_mtime_ns, st.st_size)
    if key in _AST_CACHE:
        return _AST_CACHE[key]
    cmd = ["clang-14", "-fsyntax-only", "-Xclang", "-ast-dump=json", "-Xclang", "-ast-dump-filter=" + name,
           "-I" + python_include(), path]
    p = subprocess.run(cmd, capture_output=True, text=True, timeout=120)
    if p.returncode != 0 or not p.stdout.strip():
        raise core.Unsupported("clang could not produce an AST for %s: %s" % (path, p.stderr[-300:]))
    # the filter prints one JSON document per matching declaration
    dec = json.JSONDecoder()
    txt, i, found = p.stdout, 0, None
    while i < len(txt):
        while i < len(txt) and txt[i] != "{":
            i += 1
        if i >= len(txt):
            break
        obj, j = dec.raw_decode(txt, i)
        i = j
        if obj.get("kind") == "FunctionDecl" and obj.get("name") == name and any(
                (c or {}).get("kind") == "CompoundStmt" for c in obj.get("inner", [])):
            found = obj
    if found is None:
        raise core.Unsupported("function %s not found in %s" % (name, path))
    _AST_CACHE[key] = found
    return found


def source_digest(path, name):
    src = open(path, "rb").read()
    return {"sha256": hashlib.sha256(src).hexdigest()[:16], "file": path, "function": name, "bytes": len(src)}


# ------------------------------------------------------------------ values
INT_TYPES = {"int": (32, True), "long": (64, True), "Py_ssize_t": (64, True), "ssize_t": (64, True),
             "unsigned long": (64, False), "size_t": (64, False), "unsigned int": (32, False),
             "uint32_t": (32, False), "uint64_t": (64, False), "char": (8, True), "const char": (8, True),
             "unsigned char": (8, False), "long long": (64, True), "unsigned long long": (64, False)}
BV_NAMES = {"uint32_t", "uint64_t", "char", "const char", "unsigned char"}


class V:
    """a C value: kind 'int' (z3 Int + (width, signed)), 'bv' (z3 BitVec), 'ptr' (region, off, elem bytes),
    'obj' (opaque token), 'null'."""
    __slots__ = ("kind", "t", "w", "signed", "region", "off", "esz", "tok")

    def __init__(self, kind, **kw):
        self.kind = kind
        self.t = kw.get("t")
        self.w = kw.get("w")
        self.signed = kw.get("signed", True)
        self.region = kw.get("region")
        self.off = kw.get("off")
        self.esz = kw.get("esz", 1)
        self.tok = kw.get("tok")

    def __repr__(self):
        if self.kind in ("int", "bv"):
            return "V(%s %s w=%s)" % (self.kind, self.t, self.w)
        if self.kind == "ptr":
            return "V(ptr %s+%s)" % (self.region, self.off)
        return "V(%s %s)" % (self.kind, self.tok)


def vint(t, w=64, signed=True):
    return V("int", t=t if isinstance(t, z3.ExprRef) else z3.IntVal(t), w=w, signed=signed)


def vbv(t, w):
    return V("bv", t=t, w=w, signed=False)


NULL = V("null")


class Return(Exception):
    def __init__(self, value):
        self.value = value


class Region:
    def __init__(self, name, arr, size, writable):
        self.name, self.arr, self.size, self.writable = name, arr, size, writable


class Executor:
    def __init__(self, c, fn_ast, externals, invariants, endian="little", sizeof=None, file=""):
        self.c, self.fn, self.ext, self.inv = c, fn_ast, externals, invariants
        self.endian, self.sizeof_override = endian, sizeof or {}
        self.vars = {}            # name -> V or None (uninitialised)
        self.types = {}           # name -> qualType
        self.regions = {}
        self.loop_k = -1
        self.site = 0
        self.file = file
        self.events = []          # external side effects recorded by the contract's externals

    # ---------------------------------------------------------------- helpers
    def tname(self, node):
        t = node.get("type", {})
        return t.get("qualType", "")

    def ctype(self, q):
        q = q.replace("const ", "").strip()
        return q

    def unsupported(self, node, what=""):
        raise core.Unsupported("C construct not modelled: %s %s (line %s)" % (node.get("kind"), what, node.get("range", {}).get("begin", {}).get("line", "?")))

    def oblige(self, name, cond, kind="ensures"):
        return self.c.oblige(name, SBool(cond) if isinstance(cond, z3.ExprRef) else cond, kind=kind)

    def range_ok(self, name, t, w, signed):
        lo, hi = (-(2 ** (w - 1)), 2 ** (w - 1) - 1) if signed else (0, 2 ** w - 1)
        self.oblige("arith/%s-no-overflow" % name, z3.And(t >= lo, t <= hi), kind="safety")

    def to_bv(self, v, w, signed_src=None):
        if v.kind == "bv":
            if v.w == w:
                return v.t
            if v.w < w:
                return z3.SignExt(w - v.w, v.t) if (v.signed if signed_src is None else signed_src) else z3.ZeroExt(w - v.w, v.t)
            return z3.Extract(w - 1, 0, v.t)
        if v.kind == "int":
            return z3.Int2BV(v.t, w)
        raise core.Unsupported("cannot convert %r to a bit-vector" % (v,))

    def to_int(self, v):
        if v.kind == "int":
            return v.t
        if v.kind == "bv":
            return z3.BV2Int(v.t, is_signed=v.signed)
        raise core.Unsupported("cannot convert %r to an integer" % (v,))

    def truth(self, v):
        if v.kind == "int":
            return v.t != 0
        if v.kind == "bv":
            return v.t != 0
        if v.kind == "null":
            return z3.BoolVal(False)
        if v.kind in ("ptr", "obj"):
            return z3.BoolVal(True)
        raise core.Unsupported("truth value of %r" % (v,))

    def branch(self, cond):
        return self.c.branch(cond) if self.c.symbolic else bool(z3.is_true(z3.simplify(cond)))

    # ---------------------------------------------------------------- memory
    def check_access(self, region, off, nbytes, what):
        r = self.regions[region]
        self.site += 1
        self.oblige("mem/%s-%s-in-bounds" % (region, what), z3.And(off >= 0, off + nbytes <= r.size), kind="safety")

    def load(self, region, off, nbytes):
        self.check_access(region, off, nbytes, "read")
        arr = self.regions[region].arr
        bs = [z3.Select(arr, z3.simplify(off + k)) for k in range(nbytes)]
        if nbytes == 1:
            return bs[0]
        return z3.Concat(*(list(reversed(bs)) if self.endian == "little" else bs))

    def store(self, region, off, nbytes, bvterm):
        r = self.regions[region]
        if not r.writable:
            self.oblige("mem/%s-is-not-written" % region, z3.BoolVal(False), kind="safety")
        self.check_access(region, off, nbytes, "write")
        arr = r.arr
        for k in range(nbytes):
            j = k if self.endian == "little" else nbytes - 1 - k
            arr = z3.Store(arr, z3.simplify(off + k), z3.Extract(8 * j + 7, 8 * j, bvterm) if nbytes > 1 else bvterm)
        r.arr = arr

    # ---------------------------------------------------------------- expressions
    def lvalue(self, n):
        k = n["kind"]
        if k == "DeclRefExpr":
            return ("var", n["referencedDecl"]["name"])
        if k == "ParenExpr":
            return self.lvalue(n["inner"][0])
        if k == "ArraySubscriptExpr":
            base = self.rvalue(n["inner"][0])
            idx = self.rvalue(n["inner"][1])
            if base.kind != "ptr":
                self.unsupported(n, "subscript of a non-pointer")
            off = z3.simplify(base.off + self.to_int(idx) * base.esz)
            return ("mem", base.region, off, base.esz, self.tname(n))
        if k == "UnaryOperator" and n.get("opcode") == "*":
            base = self.rvalue(n["inner"][0])
            return ("mem", base.region, base.off, base.esz, self.tname(n))
        self.unsupported(n, "as an lvalue")

    def read_lv(self, lv, node):
        if lv[0] == "var":
            v = self.vars.get(lv[1], "?")
            if v == "?":
                ext = self.ext.get("global:" + lv[1])
                if ext is not None:
                    return ext
                raise core.Unsupported("read of unknown variable %s" % lv[1])
            if v is None:
                raise core.Unsupported("read of uninitialised variable %s (undefined behaviour)" % lv[1])
            return v
        _, region, off, esz, tn = lv
        t = self.load(region, off, esz)
        w, signed = INT_TYPES.get(self.ctype(tn), (8 * esz, False))
        return V("bv", t=t, w=8 * esz, signed=signed)

    def write_lv(self, lv, v, node):
        if lv[0] == "var":
            self.vars[lv[1]] = v
            return
        _, region, off, esz, tn = lv
        self.store(region, off, esz, self.to_bv(v, 8 * esz))

    def conv(self, v, q):
        """convert value v to C type q (IntegralCast / assignment conversion)."""
        q = self.ctype(q)
        if v.kind in ("ptr", "obj", "null"):
            return v
        if q in INT_TYPES:
            w, signed = INT_TYPES[q]
            if q in BV_NAMES or (v.kind == "bv" and not signed):
                return V("bv", t=self.to_bv(v, w), w=w, signed=signed)
            if v.kind == "int":
                return V("int", t=v.t, w=w, signed=signed)
            # bv -> signed integer type (char -> int promotion): keep as a bit-vector of the wider width
            return V("bv", t=self.to_bv(v, w), w=w, signed=signed)
        return v

    def sizeof(self, n):
        at = n.get("argType", {})
        q = at.get("qualType", "")
        if q in self.sizeof_override:
            return self.sizeof_override[q]
        d = self.ctype(at.get("desugaredQualType", q))
        if d in INT_TYPES:
            return INT_TYPES[d][0] // 8
        self.unsupported(n, "sizeof(%s)" % q)

    def pointee_size(self, q):
        q = q.strip()
        if not q.endswith("*"):
            return 1
        base = self.ctype(q[:-1].strip())
        if base in INT_TYPES:
            return INT_TYPES[base][0] // 8
        return 1

    def rvalue(self, n):
        k = n["kind"]
        if k == "ParenExpr":
            return self.rvalue(n["inner"][0])
        if k == "IntegerLiteral":
            w, s = INT_TYPES.get(self.ctype(self.tname(n)), (32, True))
            return vint(int(n["value"]), w, s)
        if k == "StringLiteral":
            return V("obj", tok=("str", json.loads(n["value"])))
        if k == "UnaryExprOrTypeTraitExpr" and n.get("name") == "sizeof":
            return vint(self.sizeof(n), 64, False)
        if k == "DeclRefExpr":
            return self.read_lv(self.lvalue(n), n)
        if k == "ArraySubscriptExpr":
            return self.read_lv(self.lvalue(n), n)
        if k == "ImplicitCastExpr" or k == "CStyleCastExpr":
            ck = n.get("castKind")
            inner = n["inner"][0]
            if ck == "LValueToRValue":
                return self.read_lv(self.lvalue(inner), n)
            if ck in ("NoOp", "ArrayToPointerDecay", "FunctionToPointerDecay"):
                if inner["kind"] == "DeclRefExpr" and ck == "FunctionToPointerDecay":
                    return V("obj", tok=("fn", inner["referencedDecl"]["name"]))
                return self.rvalue(inner)
            if ck == "NullToPointer":
                return NULL
            if ck == "IntegralCast":
                return self.conv(self.rvalue(inner), self.tname(n))
            if ck == "BitCast":
                v = self.rvalue(inner)
                if v.kind == "ptr":
                    return V("ptr", region=v.region, off=v.off, esz=self.pointee_size(self.tname(n)))
                return v
            self.unsupported(n, "cast kind %s" % ck)
        if k == "UnaryOperator":
            op = n["opcode"]
            if op == "!":
                v = self.rvalue(n["inner"][0])
                return V("int", t=z3.If(self.truth(v), z3.IntVal(0), z3.IntVal(1)), w=32, signed=True)
            if op in ("++", "--"):
                lv = self.lvalue(n["inner"][0])
                old = self.read_lv(lv, n)
                d = 1 if op == "++" else -1
                new = self.arith("+", old, vint(d), self.tname(n), "incr")
                self.write_lv(lv, new, n)
                return old if n.get("isPostfix") else new
            if op == "&":
                return V("obj", tok=("addr", self.lvalue(n["inner"][0])))
            if op == "*":
                return self.read_lv(self.lvalue(n), n)
            if op == "-":
                v = self.rvalue(n["inner"][0])
                return self.arith("-", vint(0), v, self.tname(n), "neg")
            self.unsupported(n, "unary %s" % op)
        if k == "BinaryOperator":
            op = n["opcode"]
            if op == "=":
                lv = self.lvalue(n["inner"][0])
                v = self.conv(self.rvalue(n["inner"][1]), self.tname(n["inner"][0]))
                self.write_lv(lv, v, n)
                return v
            if op in ("&&", "||"):
                a = self.truth(self.rvalue(n["inner"][0]))
                if op == "&&":
                    if not self.branch(a):
                        return vint(0, 32)
                    b = self.truth(self.rvalue(n["inner"][1]))
                    return V("int", t=z3.If(b, z3.IntVal(1), z3.IntVal(0)), w=32)
                if self.branch(a):
                    return vint(1, 32)
                b = self.truth(self.rvalue(n["inner"][1]))
                return V("int", t=z3.If(b, z3.IntVal(1), z3.IntVal(0)), w=32)
            a = self.rvalue(n["inner"][0])
            b = self.rvalue(n["inner"][1])
            return self.arith(op, a, b, self.tname(n), "binop")
        if k == "CompoundAssignOperator":
            op = n["opcode"][:-1]
            lv = self.lvalue(n["inner"][0])
            a = self.read_lv(lv, n)
            b = self.rvalue(n["inner"][1])
            v = self.conv(self.arith(op, a, b, self.tname(n), "compound"), self.tname(n["inner"][0]))
            self.write_lv(lv, v, n)
            return v
        if k == "CallExpr":
            callee = n["inner"][0]
            while callee["kind"] in ("ImplicitCastExpr", "ParenExpr"):
                callee = callee["inner"][0]
            name = callee.get("referencedDecl", {}).get("name")
            f = self.ext.get(name)
            if f is None:
                self.unsupported(n, "call to %s (no external contract)" % name)
            return f(self, n, n["inner"][1:])
        if k == "ConditionalOperator":
            if self.branch(self.truth(self.rvalue(n["inner"][0]))):
                return self.rvalue(n["inner"][1])
            return self.rvalue(n["inner"][2])
        self.unsupported(n)

    def arith(self, op, a, b, result_type, what):
        cmp_ops = {"<": lambda x, y: x < y, "<=": lambda x, y: x <= y, ">": lambda x, y: x > y,
                   ">=": lambda x, y: x >= y, "==": lambda x, y: x == y, "!=": lambda x, y: x != y}
        if a.kind == "ptr" or b.kind == "ptr":
            if op in ("+", "-") and a.kind == "ptr" and b.kind in ("int", "bv"):
                d = self.to_int(b) * a.esz
                off = z3.simplify(a.off + d if op == "+" else a.off - d)
                r = self.regions[a.region]
                self.oblige("ptr/%s-stays-within-its-object" % a.region, z3.And(off >= 0, off <= r.size), kind="safety")
                return V("ptr", region=a.region, off=off, esz=a.esz)
            if op in cmp_ops and a.kind == "ptr" and b.kind == "ptr" and a.region == b.region:
                return V("int", t=z3.If(cmp_ops[op](a.off, b.off), z3.IntVal(1), z3.IntVal(0)), w=32)
            if op in ("==", "!=") and (a.kind == "null" or b.kind == "null"):
                return vint(0 if op == "==" else 1, 32)
            raise core.Unsupported("pointer arithmetic %s %s %s" % (a, op, b))
        if a.kind == "null" or b.kind == "null" or a.kind == "obj" or b.kind == "obj":
            if op in ("==", "!="):
                same = (a.kind == b.kind == "null") or (a.kind == b.kind == "obj" and a.tok == b.tok)
                return vint(int(same if op == "==" else not same), 32)
            raise core.Unsupported("arithmetic on %r %s %r" % (a, op, b))
        rt = self.ctype(result_type)
        if op in ("^", "|", "&", "<<", ">>", "~"):
            w = INT_TYPES.get(rt, (max(a.w or 32, b.w or 32), False))[0]
            x, y = self.to_bv(a, w), self.to_bv(b, w)
            if op == "<<":
                if a.kind == "int" or a.signed:
                    raise core.Unsupported("shift of a signed value")
                self.oblige("arith/shift-amount-below-width", z3.ULT(y, w), kind="safety")
                t = x << y
            elif op == ">>":
                self.oblige("arith/shift-amount-below-width", z3.ULT(y, w), kind="safety")
                t = z3.LShR(x, y) if not a.signed else x >> y
            else:
                t = {"^": x ^ y, "|": x | y, "&": x & y}[op]
            return V("bv", t=z3.simplify(t), w=w, signed=INT_TYPES.get(rt, (w, False))[1])
        if a.kind == "bv" or b.kind == "bv":
            # usual arithmetic conversions: to the result type's width, modular
            w, signed = INT_TYPES.get(rt, (max(a.w or 32, b.w or 32), False))
            if op in cmp_ops:
                w = max(a.w or 32, b.w or 32, 32)
                uns = (a.kind == "bv" and not a.signed and a.w >= w) or (b.kind == "bv" and not b.signed and b.w >= w)
                x, y = self.to_bv(a, w), self.to_bv(b, w)
                if op in ("==", "!="):
                    cnd = cmp_ops[op](x, y)
                elif uns:
                    cnd = {"<": z3.ULT, "<=": z3.ULE, ">": z3.UGT, ">=": z3.UGE}[op](x, y)
                else:
                    cnd = cmp_ops[op](x, y)
                return V("int", t=z3.If(cnd, z3.IntVal(1), z3.IntVal(0)), w=32)
            x, y = self.to_bv(a, w), self.to_bv(b, w)
            if op in ("+", "-", "*"):
                if signed:
                    raise core.Unsupported("signed bit-vector arithmetic (overflow is undefined)")
                t = {"+": x + y, "-": x - y, "*": x * y}[op]
                return V("bv", t=t, w=w, signed=False)
            raise core.Unsupported("operator %s on bit-vectors" % op)
        # both mathematical integers
        x, y = a.t, b.t
        if op in cmp_ops:
            return V("int", t=z3.If(cmp_ops[op](x, y), z3.IntVal(1), z3.IntVal(0)), w=32)
        w, signed = INT_TYPES.get(rt, (64, True))
        if op in ("+", "-", "*"):
            t = z3.simplify({"+": x + y, "-": x - y, "*": x * y}[op])
            if signed:
                self.range_ok(what, t, w, True)
            else:
                t = t % (2 ** w)
            return V("int", t=t, w=w, signed=signed)
        raise core.Unsupported("operator %s on integers" % op)

    # ---------------------------------------------------------------- statements
    def run(self):
        for ch in self.fn.get("inner", []):
            if ch and ch.get("kind") == "ParmVarDecl":
                self.vars[ch["name"]] = V("obj", tok=("param", ch["name"]))
                self.types[ch["name"]] = self.tname(ch)
        body = [ch for ch in self.fn["inner"] if ch and ch.get("kind") == "CompoundStmt"][0]
        try:
            self.stmt(body)
        except Return as r:
            return r.value
        return None

    def assigned_in(self, n, acc):
        if not isinstance(n, dict):
            return
        k = n.get("kind")
        if k in ("BinaryOperator", "CompoundAssignOperator") and (k == "CompoundAssignOperator" or n.get("opcode") == "="):
            tgt = n["inner"][0]
            while tgt.get("kind") == "ParenExpr":
                tgt = tgt["inner"][0]
            if tgt.get("kind") == "DeclRefExpr":
                acc.add(tgt["referencedDecl"]["name"])
        if k == "UnaryOperator" and n.get("opcode") in ("++", "--"):
            tgt = n["inner"][0]
            if tgt.get("kind") == "DeclRefExpr":
                acc.add(tgt["referencedDecl"]["name"])
        for ch in n.get("inner", []) or []:
            self.assigned_in(ch, acc)

    def fresh_like(self, name, v, k):
        c = self.c
        if v is None:
            return None
        if v.kind == "int":
            return V("int", t=z3.Int(c.fresh_name("h%d_%s" % (k, name))), w=v.w, signed=v.signed)
        if v.kind == "bv":
            return V("bv", t=z3.BitVec(c.fresh_name("h%d_%s" % (k, name)), v.w), w=v.w, signed=v.signed)
        if v.kind == "ptr":
            return V("ptr", region=v.region, off=z3.Int(c.fresh_name("h%d_%s_off" % (k, name))), esz=v.esz)
        return v

    def loop(self, n, cond_node, body_node, step_node=None):
        self.loop_k += 1
        k = self.loop_k
        c = self.c
        cut = c.symbolic and not getattr(c, "unroll", False)
        if not cut:
            it = 0
            while True:
                cv = self.truth(self.rvalue(cond_node)) if cond_node is not None else z3.BoolVal(True)
                if not self.branch(cv):
                    return
                self.stmt(body_node)
                if step_node is not None:
                    self.rvalue(step_node)
                it += 1
                if it > 100000:
                    raise core.Unsupported("loop did not terminate in the concrete run")
        inv = self.inv.get(k)
        if inv is None:
            raise core.Unsupported("loop %d has no invariant in the contract" % k)
        self.oblige("loop%d/entry" % k, inv(self), kind="loop-entry")
        names = set()
        self.assigned_in(body_node, names)
        if step_node is not None:
            self.assigned_in(step_node, names)
        for nm in sorted(names):
            if nm in self.vars:
                self.vars[nm] = self.fresh_like(nm, self.vars[nm], k)
        for r in self.regions.values():
            if r.writable:
                r.arr = z3.Array(c.fresh_name("h%d_%s" % (k, r.name)), z3.IntSort(), z3.BitVecSort(8))
        c.assume_feasible(SBool(inv(self)))
        cv = self.truth(self.rvalue(cond_node)) if cond_node is not None else z3.BoolVal(True)
        if self.branch(cv):
            self.stmt(body_node)
            if step_node is not None:
                self.rvalue(step_node)
            self.oblige("loop%d/preserve" % k, inv(self), kind="loop-preserve")
            raise core.PathEnd()
        # exit: continue after the loop with invariant and negated condition on the path

    def stmt(self, n):
        k = n["kind"]
        if k == "CompoundStmt":
            for ch in n.get("inner", []) or []:
                self.stmt(ch)
            return
        if k == "DeclStmt":
            for d in n["inner"]:
                if d["kind"] != "VarDecl":
                    self.unsupported(d)
                self.types[d["name"]] = self.tname(d)
                init = [x for x in d.get("inner", []) or [] if x]
                self.vars[d["name"]] = self.conv(self.rvalue(init[0]), self.tname(d)) if init else None
            return
        if k == "IfStmt":
            parts = n["inner"]
            cv = self.truth(self.rvalue(parts[0]))
            if self.branch(cv):
                self.stmt(parts[1])
            elif len(parts) > 2:
                self.stmt(parts[2])
            return
        if k == "WhileStmt":
            return self.loop(n, n["inner"][0], n["inner"][1])
        if k == "ForStmt":
            init, _condvar, cond, step, body = n["inner"]
            if init:
                self.stmt(init) if init["kind"] in ("DeclStmt",) else self.rvalue(init)
            return self.loop(n, cond or None, body, step or None)
        if k == "ReturnStmt":
            inner = [x for x in n.get("inner", []) or [] if x]
            raise Return(self.rvalue(inner[0]) if inner else None)
        if k == "NullStmt":
            return
        # expression statement
        self.rvalue(n)


def compile_shared(path, outdir, modname="speedups"):
    """compile the current C source into outdir (the bounded companion / replay oracle)."""
    import sysconfig
    so = os.path.join(outdir, modname + (sysconfig.get_config_var("EXT_SUFFIX") or ".so"))
    cmd = ["clang-14", "-shared", "-fPIC", "-O2", "-I" + python_include(), path, "-o", so]
    p = subprocess.run(cmd, capture_output=True, text=True, timeout=180)
    if p.returncode != 0:
        cmd[0] = "cc"
        p = subprocess.run(cmd, capture_output=True, text=True, timeout=180)
    if p.returncode != 0:
        raise RuntimeError("compilation of %s failed: %s" % (path, p.stderr[-400:]))
    import importlib.machinery
    import importlib.util
    loader = importlib.machinery.ExtensionFileLoader(modname, so)
    spec = importlib.util.spec_from_loader(modname, loader)
    mod = importlib.util.module_from_spec(spec)
    loader.exec_module(mod)
    return mod
