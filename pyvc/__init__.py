"""pyvc: contract verification of the real tornado functions by native symbolic execution."""
