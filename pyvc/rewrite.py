"""The mechanical rewrite (DESIGN §2.3): the only change to the text of a function under proof.

1. loops named in the unit's loop specs are cut at their invariant:
      while C: B      ==>   _pyvc_entry(k, locals()); (v1,..,vn) = _pyvc_havoc(k, locals())
                            for _pyvc_i in (0, 1):
                                if _pyvc_i == 1: _pyvc_back(k, locals())
                                if not C: break
                                B
      for x in E: B   ==>   _pyvc_it_k = _pyvc_iter(k, E); then as above with
                                if not _pyvc_it_k.has_next(): break
                                x = _pyvc_it_k.next()
   (loops without a spec are left alone and simply run);
2. len(x) -> _pyvc_len(x), isinstance(x, T) -> _pyvc_isinstance(x, T), int(x)/str(x)/bool(x)/
   min/max -> proxy-aware helpers (same result on real values).
Nothing else is changed; the rewritten function is compiled in the real module's globals and nested
functions keep their qualified names.  The diff (as a list of rewritten node descriptions) goes into
the evidence.
"""
from __future__ import annotations

import ast
import inspect
import textwrap
import types

from . import core
from .proxies import Proxy, SInt, SStr, SSeq, SDict, SBool, SReal, Len, cx, _iz
import z3

ROUTED = {"len": "_pyvc_len", "isinstance": "_pyvc_isinstance", "int": "_pyvc_int",
          "min": "_pyvc_min", "max": "_pyvc_max", "bool": "_pyvc_bool", "str": "_pyvc_str",
          "abs": "_pyvc_abs", "bytes": "_pyvc_bytes", "range": "_pyvc_range",
          "memoryview": "_pyvc_memoryview", "bytearray": "_pyvc_bytearray"}


class _Assigned(ast.NodeVisitor):
    def __init__(self):
        self.names = []

    def _add(self, n):
        if n not in self.names:
            self.names.append(n)

    def visit_Name(self, node):
        if isinstance(node.ctx, (ast.Store, ast.Del)):
            self._add(node.id)

    def visit_FunctionDef(self, node):
        self._add(node.name)   # do not descend

    visit_AsyncFunctionDef = visit_FunctionDef

    def visit_Lambda(self, node):
        pass

    def visit_ListComp(self, node):
        pass

    visit_SetComp = visit_DictComp = visit_GeneratorExp = visit_ListComp


def assigned_names(stmts):
    v = _Assigned()
    for s in stmts:
        v.visit(s)
    return v.names


class Cutter(ast.NodeTransformer):
    def __init__(self, cut_loops, route=True):
        self.cut = set(cut_loops)
        self.k = -1
        self.log = []
        self.route = route
        self.depth = 0

    def visit_Call(self, node):
        self.generic_visit(node)
        if (self.route and isinstance(node.func, ast.Attribute) and node.func.attr == "join" and len(node.args) == 1
                and not node.keywords and not isinstance(node.func.value, ast.Attribute)):
            # sep.join(items): str.join/bytes.join are C methods that reject proxies
            self.log.append("line %d: .join(...) -> _pyvc_join(sep, items)" % node.lineno)
            return ast.copy_location(ast.Call(func=ast.Name(id="_pyvc_join", ctx=ast.Load()), args=[node.func.value, node.args[0]], keywords=[]), node)
        if self.route and isinstance(node.func, ast.Name) and node.func.id in ROUTED:
            self.log.append("line %d: %s(...) -> %s(...)" % (node.lineno, node.func.id, ROUTED[node.func.id]))
            node.func = ast.Name(id=ROUTED[node.func.id], ctx=ast.Load())
        return node

    def visit_Compare(self, node):
        self.generic_visit(node)
        if self.route and len(node.ops) == 1 and isinstance(node.ops[0], (ast.In, ast.NotIn)):
            # `x in container`: str.__contains__ / bytes.__contains__ are C methods that reject proxies (other containers compare with ==, which proxies implement)
            self.log.append("line %d: `in` -> _pyvc_in(x, container)" % node.lineno)
            call = ast.Call(func=ast.Name(id="_pyvc_in", ctx=ast.Load()), args=[node.left, node.comparators[0]], keywords=[])
            if isinstance(node.ops[0], ast.NotIn):
                call = ast.UnaryOp(op=ast.Not(), operand=call)
            return ast.copy_location(call, node)
        return node

    def visit_Assign(self, node):
        self.generic_visit(node)
        if (self.route and len(node.targets) == 1 and isinstance(node.targets[0], ast.Name)
                and ((isinstance(node.value, ast.Dict) and not node.value.keys)
                     or (isinstance(node.value, ast.List) and not node.value.elts))):
            kind = "dict" if isinstance(node.value, ast.Dict) else "list"
            self.log.append("line %d: %s = %s literal -> _pyvc_new%s(%r) (sort decided by the contract)" % (
                node.lineno, node.targets[0].id, "{}" if kind == "dict" else "[]", kind, node.targets[0].id))
            node.value = ast.copy_location(ast.Call(func=ast.Name(id="_pyvc_new" + kind, ctx=ast.Load()),
                                                    args=[ast.Constant(value=node.targets[0].id)], keywords=[]), node.value)
        return node

    def visit_JoinedStr(self, node):
        self.generic_visit(node)
        if not self.route:
            return node
        parts = []
        for v in node.values:
            if isinstance(v, ast.Constant):
                parts.append(v)
            elif isinstance(v, ast.FormattedValue) and v.conversion == -1 and v.format_spec is None:
                parts.append(v.value)
            else:
                return node        # conversions / format specs: left to CPython (fails loudly on proxies)
        self.log.append("line %d: f-string -> _pyvc_fstr([...])" % node.lineno)
        return ast.copy_location(ast.Call(func=ast.Name(id="_pyvc_fstr", ctx=ast.Load()),
                                          args=[ast.List(elts=parts, ctx=ast.Load())], keywords=[]), node)

    def visit_BinOp(self, node):
        self.generic_visit(node)
        if self.route and isinstance(node.op, ast.Mod) and isinstance(node.left, ast.Constant) and isinstance(node.left.value, (str, bytes)):
            self.log.append("line %d: %%-format -> _pyvc_percent(...)" % node.lineno)
            return ast.copy_location(ast.Call(func=ast.Name(id="_pyvc_percent", ctx=ast.Load()),
                                              args=[node.left, node.right], keywords=[]), node)
        return node

    def _loop(self, node, is_for):
        self.k += 1
        k = self.k
        node = self.generic_visit(node)   # inner loops get later ordinals (source order, pre-order)
        if k not in self.cut:
            return node
        if node.orelse:
            raise core.Unsupported("loop %d has an else clause: cut not implemented" % k)
        body = list(node.body)
        names = assigned_names(body)
        L = ast.Call(func=ast.Name(id="locals", ctx=ast.Load()), args=[], keywords=[])
        kc = ast.Constant(value=k)

        def call(fn, *args):
            return ast.Call(func=ast.Name(id=fn, ctx=ast.Load()), args=list(args), keywords=[])
        pre = []
        if is_for:
            itn = "_pyvc_it_%d" % k
            pre.append(ast.Assign(targets=[ast.Name(id=itn, ctx=ast.Store())],
                                  value=call("_pyvc_iter", kc, node.iter)))
            tnames = assigned_names([ast.Expr(value=node.target)]) if False else _target_names(node.target)
            names = [n for n in names if n not in tnames] + tnames
            head = [ast.If(test=ast.UnaryOp(op=ast.Not(), operand=ast.Call(
                        func=ast.Attribute(value=ast.Name(id=itn, ctx=ast.Load()), attr="has_next", ctx=ast.Load()),
                        args=[], keywords=[])), body=[ast.Break()], orelse=[]),
                    ast.Assign(targets=[node.target], value=ast.Call(
                        func=ast.Attribute(value=ast.Name(id=itn, ctx=ast.Load()), attr="next", ctx=ast.Load()),
                        args=[], keywords=[]))]
        else:
            head = [ast.If(test=ast.UnaryOp(op=ast.Not(), operand=node.test), body=[ast.Break()], orelse=[])]
        pre.append(ast.Expr(value=call("_pyvc_entry", kc, L)))
        if names:
            tgt = ast.Tuple(elts=[ast.Name(id=n, ctx=ast.Store()) for n in names], ctx=ast.Store())
            pre.append(ast.Assign(targets=[tgt], value=call(
                "_pyvc_havoc", kc, L, ast.Constant(value=tuple(names)))))
        else:
            pre.append(ast.Expr(value=call("_pyvc_havoc", kc, L, ast.Constant(value=()))))
        back = ast.If(test=ast.Compare(left=ast.Name(id="_pyvc_i", ctx=ast.Load()), ops=[ast.Eq()],
                                       comparators=[ast.Constant(value=1)]),
                      body=[ast.Expr(value=call("_pyvc_back", kc, L))], orelse=[])
        new = ast.For(target=ast.Name(id="_pyvc_i", ctx=ast.Store()),
                      iter=ast.Tuple(elts=[ast.Constant(value=0), ast.Constant(value=1)], ctx=ast.Load()),
                      body=[back] + head + body, orelse=[], type_comment=None)
        self.log.append("line %d: %s loop #%d cut at its invariant (havoc: %s)" % (
            node.lineno, "for" if is_for else "while", k, ", ".join(names) or "-"))
        out = pre + [new]
        for n in out:
            ast.copy_location(n, node)
        return out

    def visit_While(self, node):
        return self._loop(node, False)

    def visit_For(self, node):
        return self._loop(node, True)


def _target_names(t):
    out = []
    for n in ast.walk(t):
        if isinstance(n, ast.Name):
            out.append(n.id)
    return out


class Unbound:
    def __repr__(self):
        return "<unbound>"


UNBOUND = Unbound()


class SeqCursor:
    """Iteration cursor over an SSeq (for-loops cut at their invariant)."""
    def __init__(self, seq, idx):
        self.seq, self.idx = seq, idx     # idx: z3 Int offset from seq.lo (snapshot at loop entry)
        self.lo, self.hi, self.arr = seq.lo, seq.hi, seq.arr

    def has_next(self):
        return SBool(z3.simplify(self.lo + self.idx < self.hi))

    def next(self):
        v = self.seq.wrap(z3.simplify(z3.Select(self.arr, self.lo + self.idx)))
        self.idx = z3.simplify(self.idx + 1)
        return v

    def pos(self):
        return SInt(self.idx)


class SRange:
    """range(lo, hi) with symbolic bounds (step 1)."""
    def __init__(self, lo, hi):
        self.lo, self.hi = lo, hi

    def __iter__(self):
        c = cx()
        i = 0
        while True:        # bounded exploration only (no loop spec): forks on the bound
            if not c.branch(self.lo + i < self.hi):
                return
            yield SInt(z3.simplify(self.lo + i))
            i += 1


class RangeCursor:
    def __init__(self, r):
        self.lo, self.hi, self.idx = r.lo, r.hi, z3.IntVal(0)

    def has_next(self):
        return SBool(z3.simplify(self.lo + self.idx < self.hi))

    def next(self):
        v = SInt(z3.simplify(self.lo + self.idx))
        self.idx = z3.simplify(self.idx + 1)
        return v

    def pos(self):
        return SInt(self.idx)


class ListCursor:
    def __init__(self, xs):
        self.xs, self.i = list(xs), 0

    def has_next(self):
        return self.i < len(self.xs)

    def next(self):
        v = self.xs[self.i]
        self.i += 1
        return v

    def pos(self):
        return self.i


class LoopSpec:
    """inv(c, L, old) -> bool-ish;  havoc(c, L, names) -> dict of replacement locals (optional);
    fields(c, L) mutates heap/object fields to fresh values (optional)."""
    def __init__(self, inv, havoc=None, fields=None, name=None, ghost_step=None):
        self.inv, self.havoc, self.fields, self.name, self.ghost_step = inv, havoc, fields, name, ghost_step


def _fresh_like(c, name, v):
    if isinstance(v, SInt) or (isinstance(v, int) and not isinstance(v, bool)):
        return c.int("h_" + name)
    if isinstance(v, (SBool, bool)):
        return c.bool("h_" + name)
    if isinstance(v, SReal) or isinstance(v, float):
        return c.real("h_" + name)
    if isinstance(v, SStr):
        return c.bytes("h_" + name) if v.is_bytes else c.str("h_" + name)
    if isinstance(v, bytes):
        return c.bytes("h_" + name)
    if isinstance(v, str):
        return c.str("h_" + name)
    if isinstance(v, SSeq):
        s = v.clone()
        s.arr = z3.Array(c.fresh_name("h_%s.arr" % name), z3.IntSort(), v.arr.sort().range())
        s.lo = z3.Int(c.fresh_name("h_%s.lo" % name))
        s.hi = z3.Int(c.fresh_name("h_%s.hi" % name))
        c.assume_z3(s.lo <= s.hi)
        return s
    if v is UNBOUND or v is None:
        return v
    raise core.Unsupported("cannot havoc loop-modified local %r of type %s (give the loop spec a havoc)" % (
        name, type(v).__name__))


def make_hooks(c, unit_name, loops, old):
    """Return the _pyvc_* helper functions bound to context c."""
    def entry(k, L):
        spec = loops[k]
        c.oblige("loop%d/entry" % k, spec.inv(c, L, old), kind="loop-entry")

    def havoc(k, L, names):
        spec = loops[k]
        # every symbolic container visible at the loop head may be mutated in place by the body
        # (subscript stores, method calls, nested closures): havoc them all, in place, first
        from .heap import havoc_container
        for n, v in list(L.items()):
            if isinstance(v, (SDict, SSeq)):
                havoc_container(c, n, v)
        if spec.fields:
            spec.fields(c, L)
        repl = spec.havoc(c, L, names) if spec.havoc else {}
        out = []
        L2 = dict(L)
        for n in names:
            if n in repl:
                v = repl[n]
            elif n in L:
                v = _fresh_like(c, n, L[n])
            else:
                v = UNBOUND
            out.append(v)
            L2[n] = v
        itn = "_pyvc_it_%d" % k
        if itn in L and isinstance(L[itn], (SeqCursor, RangeCursor)):
            L[itn].idx = z3.Int(c.fresh_name("h_it%d" % k))
            c.assume_z3(z3.And(L[itn].idx >= 0, L[itn].lo + L[itn].idx <= L[itn].hi))

        c.assume_feasible(spec.inv(c, L2, old))
        return tuple(out) if names else None

    def back(k, L):
        spec = loops[k]
        if spec.ghost_step:
            spec.ghost_step(c, L)
        c.oblige("loop%d/preserve" % k, spec.inv(c, L, old), kind="loop-preserve")
        raise core.PathEnd()

    def it(k, e):
        if isinstance(e, SSeq):
            return SeqCursor(e, z3.IntVal(0))
        if isinstance(e, SRange):
            return RangeCursor(e)
        return ListCursor(e)

    def newdict(name):
        f = c.ghost.get("literal_sorts", {}).get(name)
        return f() if f else {}

    def newlist(name):
        f = c.ghost.get("literal_sorts", {}).get(name)
        return f() if f else []

    return {"_pyvc_entry": entry, "_pyvc_havoc": havoc, "_pyvc_back": back, "_pyvc_iter": it,
            "_pyvc_newdict": newdict, "_pyvc_newlist": newlist}


def p_len(x):
    return Len(x)


def p_isinstance(x, T):
    Ts = T if isinstance(T, tuple) else (T,)
    if isinstance(x, SStr):
        return (bytes in Ts or bytearray in Ts) if x.is_bytes else (str in Ts)
    if isinstance(x, SInt):
        return int in Ts or object in Ts
    if isinstance(x, SBool):
        return bool in Ts or int in Ts
    if isinstance(x, SReal):
        return float in Ts
    if isinstance(x, SSeq):
        import collections
        return (collections.deque in Ts) if x.kind == "deque" else (list in Ts)
    if isinstance(x, SDict):
        return dict in Ts
    return isinstance(x, T)


def p_int(x=0, base=10):
    if isinstance(x, SInt):
        return x
    if isinstance(x, SBool):
        return SInt(_iz(x))
    if isinstance(x, SReal):
        t = x.t
        return SInt(z3.If(t >= 0, z3.ToInt(t), -z3.ToInt(-t)))
    if isinstance(x, SStr):
        from .strmodel import model_int
        return model_int(x, base)
    return int(x, base) if isinstance(x, (str, bytes, bytearray)) else int(x)


def p_min(*a, **kw):
    if len(a) == 2 and not kw and any(isinstance(v, Proxy) for v in a):
        x, y = a
        if isinstance(x, SReal) or isinstance(y, SReal) or isinstance(x, float) or isinstance(y, float):
            from .proxies import _rz
            return SReal(z3.If(_rz(x) <= _rz(y), _rz(x), _rz(y)))
        return SInt(z3.simplify(z3.If(_iz(x) <= _iz(y), _iz(x), _iz(y))))
    return min(*a, **kw)


def p_max(*a, **kw):
    if len(a) == 2 and not kw and any(isinstance(v, Proxy) for v in a):
        x, y = a
        if isinstance(x, SReal) or isinstance(y, SReal) or isinstance(x, float) or isinstance(y, float):
            from .proxies import _rz
            return SReal(z3.If(_rz(x) >= _rz(y), _rz(x), _rz(y)))
        return SInt(z3.simplify(z3.If(_iz(x) >= _iz(y), _iz(x), _iz(y))))
    return max(*a, **kw)


def p_range(*a):
    if any(isinstance(v, Proxy) for v in a):
        if len(a) == 1:
            return SRange(z3.IntVal(0), _iz(a[0]))
        if len(a) == 2:
            return SRange(_iz(a[0]), _iz(a[1]))
        raise core.Unsupported("range() with a symbolic step")
    return range(*a)


def p_bool(x=False):
    if isinstance(x, SBool):
        return x
    if isinstance(x, SInt):
        return SBool(x.t != 0)
    if isinstance(x, (SStr, SSeq, SDict)):
        return SBool(x.length().t > 0)
    return bool(x)


def p_str(x="", *a):
    if isinstance(x, SStr) and not x.is_bytes and not a:
        return x
    if isinstance(x, SInt):
        from .strmodel import model_str_of_int
        return model_str_of_int(x)
    if isinstance(x, Proxy):
        raise core.Unsupported("str() of %s" % type(x).__name__)
    return str(x, *a)


def p_abs(x):
    return abs(x)


def p_bytes(x=b"", *a):
    if isinstance(x, SStr) and x.is_bytes:
        return x
    if isinstance(x, Proxy):
        raise core.Unsupported("bytes() of %s" % type(x).__name__)
    return bytes(x, *a)


def p_fstr(parts):
    if not any(isinstance(x, Proxy) for x in parts):
        return "".join(x if isinstance(x, str) else format(x) for x in parts)
    out = None
    for x in parts:
        if isinstance(x, SInt):
            x = p_str(x)
        elif isinstance(x, SStr):
            if x.is_bytes:
                raise core.Unsupported("bytes value in an f-string")
        elif isinstance(x, Proxy):
            raise core.Unsupported("f-string with %s" % type(x).__name__)
        elif not isinstance(x, str):
            x = format(x)
        out = x if out is None else out + x
    return out if out is not None else ""


def p_percent(fmt, args):
    tup = args if isinstance(args, tuple) else (args,)
    if not any(isinstance(x, Proxy) for x in tup):
        return fmt % args
    import re as _re
    is_b = isinstance(fmt, bytes)
    f = fmt.decode("latin1") if is_b else fmt
    pieces = _re.split(r"(%[sdrix%])", f)
    it = iter(tup)
    out = None
    for p in pieces:
        if p == "%%":
            v = "%"
        elif p in ("%s", "%d", "%i"):
            v = next(it)
            if isinstance(v, SInt):
                v = p_str(v)
            elif isinstance(v, SStr):
                pass
            elif isinstance(v, Proxy):
                raise core.Unsupported("%%-format of %s" % type(v).__name__)
            else:
                v = (p % v)
        elif p == "%r":
            v = next(it)
            if isinstance(v, Proxy):
                v = cx().str("repr_text")          # repr of a symbolic value: some text (sound over-approximation)
            else:
                v = repr(v)
        elif p.startswith("%") and len(p) == 2:
            raise core.Unsupported("%%-format conversion %s on a symbolic value" % p)
        else:
            if "%" in p:
                raise core.Unsupported("%%-format spec in %r on symbolic values" % p)
            v = p
        if v == "":
            continue
        if is_b and isinstance(v, str):
            v = v.encode("latin1")
        out = v if out is None else out + v
    return out if out is not None else (b"" if is_b else "")


def p_join(sep, items):
    if not isinstance(sep, (str, bytes, bytearray, SStr)):
        return sep.join(items)          # os.path.join-like or other objects: untouched
    items = list(items)
    if not isinstance(sep, SStr) and not any(isinstance(x, Proxy) for x in items):
        return sep.join(items)
    out = None
    for k, x in enumerate(items):
        if k:
            out = out + sep
        out = x if out is None else out + x
    if out is None:
        return sep[:0] if not isinstance(sep, SStr) else (b"" if sep.is_bytes else "")
    return out


def p_in(x, container):
    """x in container.  A symbolic string in a concrete str/bytes is the substring test of CPython, decided by the solver; everything else is left to CPython
    (tuples, lists, sets of constants compare with ==; symbolic containers implement __contains__ themselves)"""
    if isinstance(x, SStr) and isinstance(container, (str, bytes)) and not isinstance(container, Proxy):
        if isinstance(container, bytes) != bool(x.is_bytes):
            raise TypeError("'in <string>' requires string as left operand")
        lit = container.decode("latin1") if isinstance(container, bytes) else container
        return cx().branch(z3.Contains(z3.StringVal(lit), x.t))
    return x in container


def p_memoryview(obj):
    """memoryview(x): a contract stub standing for a buffer supplies its own view (x.__pyvc_memoryview__()); real buffers get a real memoryview"""
    f = getattr(obj, "__pyvc_memoryview__", None)
    if f is not None:
        return f()
    if isinstance(obj, SStr):
        return obj
    return memoryview(obj)


def p_bytearray(*a):
    """bytearray(n) with the unit's buffer factory installed (cx().bytearray_factory): a fresh scratch buffer under contract; otherwise the real thing"""
    c = cx()
    f = getattr(c, "bytearray_factory", None) if c is not None else None
    if f is not None:
        return f(*a)
    if a and isinstance(a[0], Proxy):
        raise core.Unsupported("bytearray() of %s" % type(a[0]).__name__)
    return bytearray(*a)


HELPERS = {"_pyvc_in": p_in, "_pyvc_memoryview": p_memoryview, "_pyvc_bytearray": p_bytearray, "_pyvc_join": p_join, "_pyvc_fstr": p_fstr, "_pyvc_percent": p_percent, "_pyvc_len": p_len, "_pyvc_isinstance": p_isinstance, "_pyvc_int": p_int,
           "_pyvc_min": p_min, "_pyvc_max": p_max, "_pyvc_bool": p_bool, "_pyvc_str": p_str,
           "_pyvc_abs": p_abs, "_pyvc_bytes": p_bytes, "_pyvc_range": p_range,
           "_pyvc_newdict": lambda name: {}, "_pyvc_newlist": lambda name: []}


def get_function(module, qualname):
    """Resolve 'Class.method' / 'func' / 'outer.<locals>.inner' (outer part only) in module."""
    obj = module
    for part in qualname.split("."):
        if part == "<locals>":
            break
        obj = getattr(obj, part) if not isinstance(obj, type) else obj.__dict__[part]
        if isinstance(obj, (staticmethod, classmethod)):
            obj = obj.__func__
    if hasattr(obj, "__wrapped__") and not inspect.isfunction(obj):
        obj = obj.__wrapped__
    return obj


def rewrite_function(fn, cut_loops=(), extra_globals=None, route=True):
    """Return (new_function, log).  new_function has the same closure cells/defaults as fn."""
    fn = getattr(fn, "__pyvc_original__", fn)
    src = textwrap.dedent(inspect.getsource(fn))
    tree = ast.parse(src)
    ast.increment_lineno(tree, fn.__code__.co_firstlineno - 1)
    fdef = tree.body[0]
    fdef.decorator_list = []
    # defaults and annotations are evaluated at def time in the *defining* scope (e.g. class attributes):
    # neutralise them here; the original __defaults__/__kwdefaults__ objects are re-attached below
    fdef.args.defaults = [ast.Constant(value=None) for _ in fdef.args.defaults]
    fdef.args.kw_defaults = [None if d is None else ast.Constant(value=None) for d in fdef.args.kw_defaults]
    fdef.returns = None
    for a_ in fdef.args.posonlyargs + fdef.args.args + fdef.args.kwonlyargs + [x for x in (fdef.args.vararg, fdef.args.kwarg) if x]:
        a_.annotation = None
    cutter = Cutter(cut_loops, route)
    # visit only the body so that loop ordinals count this function's loops (incl. nested defs)
    fdef.body = [x for s in fdef.body for x in _aslist(cutter.visit(s))]
    missing = set(cut_loops) - set(range(cutter.k + 1))
    if missing:
        raise core.Unsupported("loop spec for loop(s) %s but function %s has %d loops" % (
            sorted(missing), fn.__qualname__, cutter.k + 1))
    ast.fix_missing_locations(tree)
    freevars = tuple(v for v in fn.__code__.co_freevars if v != "__class__")
    g = fn.__globals__
    parts = fn.__qualname__.split(".")
    clsname = parts[-2] if len(parts) >= 2 and parts[-2] != "<locals>" else None
    inner = fdef
    if clsname:
        # compile inside a class body of the same name so that __private names are mangled and
        # zero-argument super() gets its __class__ cell (re-bound to the original cell below)
        inner = ast.ClassDef(name=clsname, bases=[], keywords=[], body=[fdef], decorator_list=[], type_params=[])
    ret = ast.Name(id=fdef.name, ctx=ast.Load()) if not clsname else ast.Subscript(
        value=ast.Attribute(value=ast.Name(id=clsname, ctx=ast.Load()), attr="__dict__", ctx=ast.Load()),
        slice=ast.Constant(value=fdef.name), ctx=ast.Load())
    factory = ast.FunctionDef(
        name="_pyvc_factory", args=ast.arguments(posonlyargs=[], args=[ast.arg(arg=v) for v in freevars],
                                                  kwonlyargs=[], kw_defaults=[], defaults=[]),
        body=[inner, ast.Return(value=ret)], decorator_list=[], type_params=[])
    mod = ast.Module(body=[factory], type_ignores=[])
    ast.fix_missing_locations(mod)
    ns = {}
    code = compile(mod, inspect.getsourcefile(fn) or "<pyvc>", "exec")
    exec(code, g, ns)
    tmp = ns["_pyvc_factory"](*[None] * len(freevars))
    if isinstance(tmp, (staticmethod, classmethod)):
        tmp = tmp.__func__
    if tmp.__code__.co_freevars:
        old = dict(zip(fn.__code__.co_freevars, fn.__closure__ or ()))
        # a method that mentions its own class by name sees the dummy class as a free variable:
        # bind it to the real class from the module globals
        cells = tuple(old[v] if v in old else types.CellType(g.get(v)) for v in tmp.__code__.co_freevars)
    else:
        cells = None
    new = types.FunctionType(tmp.__code__, g, fn.__name__, fn.__defaults__, cells)
    new.__kwdefaults__ = fn.__kwdefaults__
    new.__qualname__ = fn.__qualname__
    new._pyvc_original__ = fn
    return new, cutter.log


def _reorder_cells(new, fn):
    old = dict(zip(fn.__code__.co_freevars, fn.__closure__))
    return [old[v] for v in new.__code__.co_freevars]


def _aslist(x):
    if x is None:
        return []
    return x if isinstance(x, list) else [x]


def nested_code(fn, name):
    """code object of a nested def/lambda inside fn (by co_name; k-th lambda as '<lambda>#k')."""
    want, _, idx = name.partition("#")
    idx = int(idx) if idx else 0
    found = []

    def walk(code):
        for const in code.co_consts:
            if isinstance(const, types.CodeType):
                if const.co_name == want:
                    found.append(const)
                walk(const)
    walk(fn.__code__)
    if len(found) <= idx:
        raise core.Unsupported("nested function %s not found in %s" % (name, fn.__qualname__))
    return found[idx]


def instantiate_closure(fn, name, cellvalues, cut_loops=(), route=True):
    """Closure unit (DESIGN §4.1): build the nested function `name` of (rewritten) fn with each
    free variable's cell holding the given value."""
    outer, log = rewrite_function(fn, cut_loops, route=route)
    code = nested_code(outer, name)
    missing = [v for v in code.co_freevars if v not in cellvalues]
    if missing:
        raise core.Unsupported("closure %s needs capture facts for %s" % (name, missing))
    cells = tuple(types.CellType(cellvalues[v]) for v in code.co_freevars)
    f = types.FunctionType(code, outer.__globals__, want_name(name), None, cells)
    return f, log


def want_name(name):
    return name.partition("#")[0]


# ------------------------------------------------------------------ module-wide routing
_ROUTED_CACHE = {}


def route_module(mod):
    """Replace every plain function / method defined in `mod` by its routed version (len() ->
    _pyvc_len(), isinstance -> ..., no loop cuts).  On real values the helpers return what the
    builtins return, so behaviour is unchanged; on proxies the callees of the function under contract
    (helpers that are simply inlined) keep working.  Returns an undo list."""
    undo = []
    mod.__dict__.update(HELPERS)
    for name, obj in list(vars(mod).items()):
        if inspect.isfunction(obj) and (obj.__module__ or "").startswith("tornado") and "/tornado/" in (obj.__code__.co_filename or "") \
                and not hasattr(obj, "__pyvc_original__"):
            # includes functions imported from other tornado modules (from tornado.escape import native_str)
            if obj.__globals__ is not mod.__dict__:
                obj.__globals__.update(HELPERS)
            new = _routed(obj)
            if new is not None:
                undo.append((mod, name, obj))
                setattr(mod, name, new)
        elif inspect.isclass(obj) and obj.__module__ == mod.__name__:
            for an, av in list(vars(obj).items()):
                if inspect.isfunction(av) and av.__code__.co_filename == getattr(mod, "__file__", None):
                    new = _routed(av)
                    if new is not None:
                        undo.append((obj, an, av))
                        setattr(obj, an, new)
    return undo


def unroute(undo):
    for owner, name, orig in reversed(undo):
        setattr(owner, name, orig)


def _routed(fn):
    key = fn.__code__
    if key in _ROUTED_CACHE:
        return _ROUTED_CACHE[key]
    new = None
    try:
        src = inspect.getsource(fn)
        if any(("%s(" % b) in src for b in ROUTED) or ".join(" in src or 'f"' in src or "f'" in src or '" %' in src or "' %" in src:
            new, _ = rewrite_function(fn, (), route=True)
    except (Exception, core.Unsupported):      # anything that cannot be recompiled stays as it is
        new = None
    _ROUTED_CACHE[key] = new
    return new
