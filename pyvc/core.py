"""pyvc core: path exploration by re-execution, obligations, solver back ends.

The code under proof is the real function object from /repo, run by CPython on
proxy values (pyvc.proxies).  This module owns: the per-path state (path
condition, decision prefix), the fork scheduler, obligation records and their
discharge with z3 (then cvc5 for z3's unknowns), covers/canaries, and the
concrete ("replay") context that evaluates the same unit on real values taken
from a solver model.
"""
from __future__ import annotations

import hashlib
import itertools
import os
import time
import traceback

import z3

Z3_TIMEOUT_MS = int(os.environ.get("PYVC_Z3_TIMEOUT_MS", "10000"))
CVC5_TIMEOUT_MS = int(os.environ.get("PYVC_CVC5_TIMEOUT_MS", "30000"))
FEAS_TIMEOUT_MS = int(os.environ.get("PYVC_FEAS_TIMEOUT_MS", "1500"))
PATH_CAP = int(os.environ.get("PYVC_PATH_CAP", "2000"))
DEPTH_CAP = 400
DEPTH_CAP_UNROLL = 60


class PathEnd(BaseException):
    """Engine control signal: this path is over (infeasible, or cut at a loop back edge)."""


class Unsupported(BaseException):
    """Engine control signal: a proxy met an operation the engine does not model."""


class Obligation:
    __slots__ = ("name", "kind", "pc", "goal", "status", "model", "secs", "backend",
                 "path", "note", "smt_head", "choices", "decisions")

    def __init__(self, name, kind, pc, goal, path):
        self.name = name
        self.kind = kind
        self.pc = pc
        self.goal = goal
        self.path = path
        self.status = None      # discharged | refuted | undecided
        self.model = None
        self.secs = 0.0
        self.backend = None
        self.note = ""
        self.smt_head = ""
        self.choices = None
        self.decisions = None

    def summary(self):
        return {"name": self.name, "kind": self.kind, "status": self.status, "path": self.path,
                "backend": self.backend, "secs": round(self.secs, 4), "note": self.note}


def _b(x):
    """Coerce a spec value (python bool, proxy, z3 term) to a z3 BoolRef."""
    from . import proxies as P
    if isinstance(x, P.SBool):
        return x.t
    if isinstance(x, bool):
        return z3.BoolVal(x)
    if isinstance(x, z3.BoolRef):
        return x
    if isinstance(x, P.SInt):
        return x.t != 0
    raise TypeError("not a boolean spec value: %r" % (x,))


def timed_check(solver, ms, *assumptions):
    """solver.check() under the solver's own timeout.  (Interrupting the z3 context from a timer thread was tried
    and abandoned: it corrupted solver state - a later Z3_solver_assert crashed.  Overruns of the string solver are
    instead avoided by non-incremental feasibility queries, see SymCtx.feasible, and bounded by the per-unit
    watchdog of the runner.)"""
    try:
        return solver.check(*assumptions)
    except z3.Z3Exception:
        return z3.unknown


_SYM_CACHE = {}


def _symbols(e):
    """ids of the uninterpreted constants/functions occurring in e (memoised per term id)."""
    k = e.get_id()
    r = _SYM_CACHE.get(k)
    if r is not None:
        return r
    out = set()
    seen = set()
    stack = [e]
    while stack:
        x = stack.pop()
        i = x.get_id()
        if i in seen:
            continue
        seen.add(i)
        if z3.is_quantifier(x):
            stack.append(x.body())
            continue
        if z3.is_app(x):
            if x.decl().kind() == z3.Z3_OP_UNINTERPRETED:
                out.add(x.decl().name())
            stack.extend(x.children())
    if len(_SYM_CACHE) > 200000:
        _SYM_CACHE.clear()
    _SYM_CACHE[k] = out
    return out


def _arith_abstraction(pc, goal):
    """Sound pre-check for queries that the string solver chokes on: replace every Length(t) by a fresh integer
    (>= 0), drop the path constraints that still mention strings, keep the rest.  The abstraction has at least
    the models of the original, so `unsat` carries over.  Returns the list of abstract constraints for
    pc and not goal, or None when the goal itself still mentions strings."""
    cache, lens = {}, {}

    def is_stringy(sort):
        return sort.kind() in (z3.Z3_SEQ_SORT, z3.Z3_RE_SORT)

    def ab(e):
        k = e.get_id()
        if k in cache:
            return cache[k]
        r = None
        if z3.is_app(e) and e.decl().kind() == z3.Z3_OP_SEQ_LENGTH:
            key = e.arg(0).get_id()
            if key not in lens:
                lens[key] = z3.Int("len!abs!%d" % len(lens))
            r = lens[key]
        elif is_stringy(e.sort()):
            r = False
        elif z3.is_quantifier(e):
            r = False
        elif z3.is_app(e):
            kids = [ab(ch) for ch in e.children()]
            if any(x is False for x in kids):
                r = False
            elif kids:
                try:
                    r = e.decl()(*kids)
                except Exception:
                    r = False
            else:
                r = e
        else:
            r = False
        cache[k] = r
        return r
    g = ab(goal)
    if g is False:
        return None
    out = [z3.Not(g)]
    for c in pc:
        a = ab(c)
        if a is not False:
            out.append(a)
    out.extend(v >= 0 for v in lens.values())
    return out


def _z3_in_child(pc, goal, ms):
    """z3 on pc /\\ not goal in a forked child with a hard wall-clock limit.  Returns 'unsat' | 'unknown' | ('sat', smt2_text)
    where smt2_text pins the model's constants (so the parent can rebuild a model object with a trivial query)."""
    import select
    import signal
    r, w = os.pipe()
    pid = os.fork()
    if pid == 0:
        code = 0
        try:
            os.close(r)
            s = z3.Solver()
            s.set("timeout", ms)
            for c in pc:
                s.add(c)
            s.add(z3.Not(goal))
            res = s.check()
            if res == z3.unsat:
                os.write(w, b"unsat")
            elif res == z3.sat:
                m = s.model()
                pin = z3.Solver()
                for d in m.decls():
                    if d.arity() == 0:
                        try:
                            pin.add(d() == m[d])
                        except Exception:
                            pass
                os.write(w, b"sat\n" + pin.to_smt2().encode("utf-8", "replace"))
            else:
                os.write(w, b"unknown")
        except BaseException:
            code = 1
        finally:
            os._exit(code)
    os.close(w)
    out = b""
    try:
        deadline = time.time() + ms / 1000.0 * 1.3 + 2.0
        while True:
            left = deadline - time.time()
            if left <= 0:
                break
            ready, _, _ = select.select([r], [], [], left)
            if not ready:
                break
            chunk = os.read(r, 1 << 16)
            if not chunk:
                break
            out += chunk
    finally:
        os.close(r)
        try:
            os.kill(pid, signal.SIGKILL)
        except OSError:
            pass
        try:
            os.waitpid(pid, 0)
        except OSError:
            pass
    if out == b"unsat":
        return "unsat"
    if out.startswith(b"sat\n"):
        return ("sat", out[4:].decode("utf-8", "replace"))
    return "unknown"


def solve(pc, goal, want_model=True, z3_ms=None, cvc5_ms=None, hard=False, direct=False):
    """Decide pc => goal.  Returns (status, model_or_None, secs, backend, note).
    hard=True: the main z3 query runs in a killable child (string-heavy units: z3 does not always honour its timeout)."""
    t0 = time.time()
    # (1) the goal is literally one of the hypotheses (or a hypothesis is its negation's negation): no solver needed
    gid = goal.get_id()
    for c in pc:
        if c.get_id() == gid:
            return "discharged", None, time.time() - t0, "simplify", "goal is a hypothesis"
    # (2) hypotheses that directly share an uninterpreted symbol with the goal often suffice, and keep the string
    #     solver away from the unrelated bulk of a long path condition (unsat of a subset carries over)
    #     (direct=True: a unit whose queries are small and quick may skip the two weaker attempts - when they cannot
    #      succeed they only cost their timeouts)
    try:
        if direct:
            raise LookupError("direct")
        gs = _symbols(goal)
        sub = [c for c in pc if _symbols(c) & gs]
        if gs and 0 < len(sub) < len(pc):
            ss = z3.Solver()
            ss.set("timeout", 2000)
            for c in sub:
                ss.add(c)
            ss.add(z3.Not(goal))
            if timed_check(ss, 2000) == z3.unsat:
                return "discharged", None, time.time() - t0, "z3", "subset of hypotheses sharing symbols with the goal"
    except Exception:
        pass
    try:
        ab = None if direct else _arith_abstraction(pc, goal)
    except Exception:
        ab = None
    if ab is not None and len(ab) < len(pc) + 1 + 64:
        sa = z3.Solver()
        sa.set("timeout", 1500)
        for c in ab:
            sa.add(c)
        if timed_check(sa, 1500) == z3.unsat:
            return "discharged", None, time.time() - t0, "z3", "length/arithmetic abstraction"
    s = z3.Solver()
    s.set("timeout", z3_ms or Z3_TIMEOUT_MS)
    for c in pc:
        s.add(c)
    s.add(z3.Not(goal))
    if hard:
        ans = _z3_in_child(pc, goal, z3_ms or Z3_TIMEOUT_MS)
        if ans == "unsat":
            return "discharged", None, time.time() - t0, "z3", "z3 in a child process"
        if isinstance(ans, tuple):
            # rebuild a model object in this process from the child's assignment (a trivial query)
            try:
                pin = z3.Solver()
                pin.set("timeout", 5000)
                pin.from_string(ans[1])
                if pin.check() == z3.sat:
                    return "refuted", pin.model() if want_model else None, time.time() - t0, "z3", "z3 in a child process"
            except Exception:
                pass
            return "undecided", None, time.time() - t0, "z3", "z3 (child) sat, model not transferable"

        class _R:
            def reason_unknown(self):
                return "hard wall-clock limit in child"
        r = z3.unknown
        s_reason = "timeout (child killed)"
    else:
        r = timed_check(s, z3_ms or Z3_TIMEOUT_MS)
        s_reason = None
    if r == z3.unknown and (cvc5_ms or CVC5_TIMEOUT_MS) <= 0:
        return "undecided", None, time.time() - t0, "z3", "z3 unknown(%s)" % (s_reason or s.reason_unknown())
    if r == z3.unsat:
        return "discharged", None, time.time() - t0, "z3", ""
    if r == z3.sat:
        return "refuted", s.model() if want_model else None, time.time() - t0, "z3", ""
    # z3 unknown: a second try with a different tactic configuration, then cvc5
    note = "z3 unknown(%s)" % (s_reason or s.reason_unknown())
    try:
        r2, be = _cvc5_check(s.to_smt2(), cvc5_ms or CVC5_TIMEOUT_MS)
    except Exception as e:  # cvc5 front end could not take the query
        r2, be = "unknown", "cvc5"
        note += "; cvc5 error %s" % (str(e)[:120],)
    if r2 == "unsat":
        return "discharged", None, time.time() - t0, be, note
    if r2 == "sat":
        # cvc5 says sat; we have no z3 model. Report undecided-with-hint: never a violation
        # without a model we can replay.
        return "undecided", None, time.time() - t0, be, note + "; cvc5 sat (no model transfer)"
    return "undecided", None, time.time() - t0, "z3+cvc5", note + "; cvc5 unknown"


def _cvc5_check(smt2_text, timeout_ms):
    """cvc5 in a forked child with a hard wall-clock limit (its own tlimit is not always honoured on string
    queries); anything but a clean sat/unsat answer is `unknown`."""
    import select
    import signal
    r, w = os.pipe()
    pid = os.fork()
    if pid == 0:
        code = 0
        try:
            os.close(r)
            res, _ = _cvc5_inproc(smt2_text, timeout_ms)
            os.write(w, res.encode())
        except BaseException:
            code = 1
        finally:
            os._exit(code)
    os.close(w)
    res = "unknown"
    try:
        ready, _, _ = select.select([r], [], [], timeout_ms / 1000.0 * 1.3 + 3.0)
        if ready:
            data = os.read(r, 64).decode(errors="replace").strip()
            if data in ("sat", "unsat"):
                res = data
    finally:
        os.close(r)
        try:
            os.kill(pid, signal.SIGKILL)
        except OSError:
            pass
        try:
            os.waitpid(pid, 0)
        except OSError:
            pass
    return res, "cvc5"


def _cvc5_inproc(smt2_text, timeout_ms):
    import cvc5
    slv = cvc5.Solver()
    slv.setOption("tlimit-per", str(timeout_ms))
    slv.setOption("strings-exp", "true")
    slv.setLogic("ALL")
    parser = cvc5.InputParser(slv)
    parser.setStringInput(cvc5.InputLanguage.SMT_LIB_2_6, smt2_text, "q")
    sm = parser.getSymbolManager()
    res = "unknown"
    while True:
        cmd = parser.nextCommand()
        if cmd.isNull():
            break
        out = cmd.invoke(slv, sm)
        if "check-sat" in str(cmd):
            o = str(out).strip()
            if o.startswith("unsat"):
                res = "unsat"
            elif o.startswith("sat"):
                res = "sat"
            else:
                res = "unknown"
    return res, "cvc5"


class Path:
    def __init__(self, prefix, no):
        self.prefix = prefix      # decisions to replay: list of ("b", bool) / ("c", int)
        self.idx = 0
        self.taken = []
        self.pc = []
        self.no = no
        self.solver = z3.Solver()
        self.solver.set("timeout", FEAS_TIMEOUT_MS)
        # feasibility only needs "not provably infeasible": without MBQI a satisfiable query with
        # quantified hypotheses comes back unknown at once (= feasible) instead of timing out
        self.solver.set("smt.mbqi", False)
        self.ended = False


class SymCtx:
    """Symbolic context for one unit (one function under contract)."""
    symbolic = True

    def __init__(self, unit_name, prop="", seed=0):
        self.unit = unit_name
        self.prop = prop
        self.worklist = [[]]
        self.paths_run = 0
        self.obligations = []
        self.covers = []          # (label, status)
        self.path = None
        self.unsupported = []     # (path, message)
        self.crashes = []
        self.names = {}
        self.models_used = set()  # library models / axioms used (trusted base)
        self.ghost = None         # per-path ghost record, reset per path
        self.seed = seed
        self.solver_secs = {"z3": 0.0, "cvc5": 0.0, "z3+cvc5": 0.0}
        self.exhausted = True

    # ---------------------------------------------------------------- naming
    def fresh_name(self, base):
        k = self.names_path.get(base, 0)
        self.names_path[base] = k + 1
        return base if k == 0 else "%s!%d" % (base, k)

    # ---------------------------------------------------------------- values
    def int(self, name):
        from .proxies import SInt
        return SInt(z3.Int(self.fresh_name(name)))

    def nat(self, name):
        v = self.int(name)
        self.assume(v >= 0)
        return v

    def bool(self, name):
        from .proxies import SBool
        return SBool(z3.Bool(self.fresh_name(name)))

    def real(self, name):
        from .proxies import SReal
        return SReal(z3.Real(self.fresh_name(name)))

    def str(self, name, latin1=False):
        """latin1=True: text decoded from the wire (HTTP header text is latin-1): code points <= 0xFF."""
        from .proxies import SStr
        v = SStr(z3.String(self.fresh_name(name)), False, latin1)
        if latin1:
            self.assume_z3(z3.InRe(v.t, z3.Star(z3.Range(chr(0), chr(255)))))
        return v

    def bytes(self, name):
        from .proxies import SStr
        v = SStr(z3.String(self.fresh_name(name)), True)
        self.assume_z3(z3.InRe(v.t, z3.Star(z3.Range(chr(0), chr(255)))))
        return v

    def choose(self, label, options):
        """Concrete choice point (kinds, None-ness, enum members): forks the path."""
        n = len(options)
        if n == 1:
            return options[0]
        p = self.path
        if p.idx < len(p.prefix):
            kind, d = p.prefix[p.idx]
            assert kind == "c", "decision replay out of sync at %s" % label
            p.idx += 1
            p.taken.append(("c", d))
            p.choice_log.append((label, d))
            return options[d]
        for alt in range(n - 1, 0, -1):
            self.worklist.append(p.taken + [("c", alt)])
        p.taken.append(("c", 0))
        p.choice_log.append((label, 0))
        return options[0]

    # ---------------------------------------------------------------- control
    def feasible(self, cond):
        if getattr(self, "fresh_feasibility", False):
            # string-heavy units: z3's incremental mode (check with assumptions on a solver that keeps growing) skips
            # the preprocessing its string procedures need and overruns its timeout by minutes; a fresh solver per
            # query decides the same question in milliseconds (measured, DESIGN §9)
            s = z3.Solver()
            s.set("timeout", FEAS_TIMEOUT_MS)
            for c in self.path.pc:
                s.add(c)
            s.add(cond)
            return timed_check(s, FEAS_TIMEOUT_MS) != z3.unsat
        r = timed_check(self.path.solver, FEAS_TIMEOUT_MS, cond)
        return r != z3.unsat

    def branch(self, cond):
        """A symbolic boolean is used as a Python truth value."""
        cond = z3.simplify(cond)
        if z3.is_true(cond):
            return True
        if z3.is_false(cond):
            return False
        p = self.path
        if len(p.taken) > (DEPTH_CAP_UNROLL if getattr(self, "unroll", False) else DEPTH_CAP):
            if getattr(self, "unroll", False):
                raise PathEnd()
            raise Unsupported("path longer than %d decisions (unbounded loop without an invariant?)" % DEPTH_CAP)
        if p.idx < len(p.prefix):
            kind, d = p.prefix[p.idx]
            assert kind == "b", "decision replay out of sync"
            p.idx += 1
            p.taken.append(("b", d))
            self._add(cond if d else z3.Not(cond))
            return d
        # syntactic shortcut: the very same condition (or its negation) is already on the path
        known = p.__dict__.setdefault("known_ids", {})
        cid = cond.get_id()
        if cid in known:
            d = known[cid]
            p.taken.append(("b", d))
            return d
        t = self.feasible(cond)
        f = self.feasible(z3.Not(cond))
        if t and f:
            self.worklist.append(p.taken + [("b", False)])
            d = True
        elif t:
            d = True
        elif f:
            d = False
        else:
            raise PathEnd()
        p.taken.append(("b", d))
        self._add(cond if d else z3.Not(cond))
        return d

    def _add(self, c):
        self.path.pc.append(c)
        if not getattr(self, "fresh_feasibility", False):
            self.path.solver.add(c)
        known = self.path.__dict__.setdefault("known_ids", {})
        known[c.get_id()] = True
        if z3.is_not(c):
            known[c.arg(0).get_id()] = False

    def assume_z3(self, c):
        c = z3.simplify(c)
        if z3.is_true(c):
            return
        self._add(c)

    def assume(self, cond):
        """Add a hypothesis (requires / invariant / callee postcondition / library model)."""
        c = z3.simplify(_b(cond))
        if z3.is_true(c):
            return
        if z3.is_false(c):
            raise PathEnd()
        self._add(c)

    def assume_feasible(self, cond):
        self.assume(cond)
        if not self.feasible(z3.BoolVal(True)):
            raise PathEnd()

    def end_path(self):
        raise PathEnd()

    # ---------------------------------------------------------------- obligations
    def oblige(self, name, cond, kind="ensures"):
        goal = z3.simplify(_b(cond))
        o = Obligation("%s/%s/%s" % (self.prop, self.unit, name), kind, list(self.path.pc), goal,
                       self.path.no)
        o.choices = list(self.path.choice_log)
        o.decisions = list(self.path.taken)
        only = getattr(self, "only_obligation", None)
        if only is not None and o.name != only:
            o.status, o.backend = "skipped", "-"
            return True
        if z3.is_true(goal):
            o.status, o.backend = "discharged", "simplify"
        else:
            st, model, secs, be, note = solve(o.pc, goal, hard=getattr(self, "hard_timeouts", False), direct=getattr(self, "direct_queries", False))
            o.status, o.model, o.secs, o.backend, o.note = st, model, secs, be, note
            self.solver_secs[be if be in self.solver_secs else "z3"] += secs
        if len(self.obligations) < 100000:
            self.obligations.append(o)
        return o.status == "discharged"

    def infeasible(self, name, kind="raises"):
        """Obligation: the current path must be infeasible (e.g. a forbidden exception exit)."""
        return self.oblige(name, z3.BoolVal(False), kind=kind)

    def cover(self, label):
        """Canary / reachability: the current path condition must be satisfiable (once per label)."""
        done = self.__dict__.setdefault("_covered", set())
        if label in done:
            return z3.sat
        s = z3.Solver()
        s.set("timeout", min(Z3_TIMEOUT_MS, 3000))
        for c in self.path.pc:
            s.add(c)
        r = s.check()
        self.covers.append((label, str(r), self.path.no))
        if r == z3.sat:
            done.add(label)
        return r

    def use_model(self, tag):
        self.models_used.add(tag)

    # ---------------------------------------------------------------- exploration
    def explore(self, body):
        """Run body(self) on every feasible path.  body builds the pre-state itself."""
        deadline = getattr(self, "deadline", None)
        while self.worklist:
            if deadline is not None and time.time() > deadline:
                self.exhausted = False
                break
            if self.paths_run >= PATH_CAP:
                self.exhausted = False
                self.unsupported.append((self.paths_run, "path explosion: cap %d reached" % PATH_CAP))
                break
            # witness search / bounded units: shortest alternative first (shallow counterexamples are found
            # before deep loop unrollings); proof mode: depth-first
            if getattr(self, "unroll", False) and getattr(self, "bfs", False):
                k = min(range(len(self.worklist)), key=lambda i: len(self.worklist[i]))
                prefix = self.worklist.pop(k)
            else:
                prefix = self.worklist.pop()
            self.paths_run += 1
            self.path = Path(prefix, self.paths_run)
            self.path.choice_log = []
            self.names_path = {}
            self.ghost = {}
            try:
                body(self)
            except PathEnd:
                pass
            except Unsupported as e:
                self.exhausted = False
                self.unsupported.append((self.path.no, "unsupported: %s" % (e,)))
            except BaseException as e:  # engine or contract-file crash on this path
                self.exhausted = False
                tb = traceback.format_exc()
                self.crashes.append((self.path.no, "%s: %s" % (type(e).__name__, e), tb[-1500:]))
        return self


class ConcCtx:
    """Concrete context: the same unit body on real values from a model (replay) or from a
    random generator (cross-check / stand-in)."""
    symbolic = False

    def __init__(self, unit_name, prop="", model=None, choices=None, rng=None):
        self.unit = unit_name
        self.prop = prop
        self.model = model
        self.choices = list(choices or [])
        self.cidx = 0
        self.rng = rng
        self.failed = []       # names of violated clauses
        self.checked = []
        self.assume_failed = False
        self.names_path = {}
        self.ghost = {}
        self.models_used = set()
        self.values = {}       # name -> concrete value (witness record)

    def fresh_name(self, base):
        k = self.names_path.get(base, 0)
        self.names_path[base] = k + 1
        return base if k == 0 else "%s!%d" % (base, k)

    def _ev(self, term, default):
        if self.model is None:
            return default
        v = self.model.eval(term, model_completion=True)
        return v

    def int(self, name, lo=-3, hi=6):
        n = self.fresh_name(name)
        if self.model is not None:
            v = self.model.eval(z3.Int(n), model_completion=True).as_long()
        else:
            v = self.rng.randint(lo, hi)
        self.values[n] = v
        return v

    def nat(self, name):
        n = self.int(name, 0, 6)
        if n < 0:
            self.assume_failed = True
            raise PathEnd()
        return n

    def bool(self, name):
        n = self.fresh_name(name)
        if self.model is not None:
            v = z3.is_true(self.model.eval(z3.Bool(n), model_completion=True))
        else:
            v = self.rng.random() < 0.5
        self.values[n] = v
        return v

    def real(self, name):
        n = self.fresh_name(name)
        if self.model is not None:
            r = self.model.eval(z3.Real(n), model_completion=True)
            try:
                v = float(r.numerator_as_long()) / float(r.denominator_as_long())
            except Exception:
                v = float(r.approx(20).numerator_as_long()) / float(r.approx(20).denominator_as_long())
        else:
            v = self.rng.choice([0.0, 0.001, 0.5, 1.0, 1.5, 2.0, 10.0, 1e9, 1.7e9 + self.rng.random() * 1e3])
        self.values[n] = v
        return v

    def _str(self, name, is_bytes):
        n = self.fresh_name(name)
        if self.model is not None:
            sv = self.model.eval(z3.String(n), model_completion=True)
            v = z3str_to_py(sv)
        else:
            alpha = getattr(self, "alphabet", "a1 -,:;\r\n\t/=\"\\%\x00\x7f\xe9")
            v = "".join(self.rng.choice(alpha) for _ in range(self.rng.randint(0, 6)))
        if is_bytes:
            v = v.encode("latin1", "replace")
        self.values[n] = v
        return v

    def str(self, name, latin1=False):
        return self._str(name, False)

    def bytes(self, name):
        return self._str(name, True)

    def choose(self, label, options):
        if len(options) == 1:
            return options[0]
        if self.model is not None or self.choices:
            if self.cidx < len(self.choices):
                lab, d = self.choices[self.cidx]
                self.cidx += 1
                return options[d]
            return options[0]
        return self.rng.choice(options)

    def assume(self, cond):
        if not _truth(cond):
            self.assume_failed = True
            raise PathEnd()

    assume_feasible = assume

    def assume_z3(self, c):
        pass

    def oblige(self, name, cond, kind="ensures"):
        full = "%s/%s/%s" % (self.prop, self.unit, name)
        ok = _truth(cond)
        self.checked.append(full)
        if not ok:
            self.failed.append(full)
        return ok

    def infeasible(self, name, kind="raises"):
        return self.oblige(name, False, kind)

    def cover(self, label):
        return "sat"

    def use_model(self, tag):
        self.models_used.add(tag)

    def end_path(self):
        raise PathEnd()


def _truth(cond):
    if isinstance(cond, bool):
        return cond
    if isinstance(cond, z3.BoolRef):
        c = z3.simplify(cond)
        if z3.is_true(c):
            return True
        if z3.is_false(c):
            return False
        raise TypeError("symbolic condition in concrete context: %s" % c)
    from .proxies import SBool
    if isinstance(cond, SBool):
        return _truth(cond.t)
    return bool(cond)


def z3str_to_py(sv):
    """z3 string value -> python str (handles \\u{..} escapes)."""
    s = sv.as_string() if hasattr(sv, "as_string") else str(sv)
    out = []
    i = 0
    while i < len(s):
        if s.startswith("\\u{", i):
            j = s.index("}", i)
            out.append(chr(int(s[i + 3:j], 16)))
            i = j + 1
        elif s.startswith("\\x", i) and i + 4 <= len(s):
            try:
                out.append(chr(int(s[i + 2:i + 4], 16)))
                i += 4
            except ValueError:
                out.append(s[i])
                i += 1
        else:
            out.append(s[i])
            i += 1
    return "".join(out)


def source_digest(fn):
    import inspect
    try:
        src = inspect.getsource(fn)
        lines, start = inspect.getsourcelines(fn)
        return {"sha256": hashlib.sha256(src.encode()).hexdigest()[:16], "line": start,
                "lines": len(lines)}
    except Exception as e:
        return {"error": str(e)}
