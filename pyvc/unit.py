"""Units: one function (or closure, or operation) of /repo under contract.

A unit body is plain Python written in the contract file: it builds the pre-state from the
context (symbolic proxies, or concrete values when replaying a model / cross-checking), calls the
real function fetched from /repo, and states the contract clauses with c.oblige(...).  The same
body therefore is the VC generator (SymCtx) and the run-time contract check (ConcCtx).
"""
from __future__ import annotations

import contextlib
import os
import importlib
import inspect
import sys

from . import core, rewrite
from .proxies import set_cx, cx

REPO = "/repo"


class Outcome:
    def __init__(self, kind, value=None, exc=None):
        self.kind, self.value, self.exc = kind, value, exc

    @property
    def returned(self):
        return self.kind == "return"

    @property
    def raised(self):
        return self.kind == "raise"

    def __repr__(self):
        return "Outcome(%s, %r)" % (self.kind, self.value if self.returned else self.exc)


class Unit:
    registry = []

    def __init__(self, prop, name, targets, body, note="", bounded=None, tiers=("quick", "thorough"), z3_ms=None, cvc5_ms=None, feas_ms=None):
        self.feas_ms = feas_ms
        self.prop, self.name, self.targets, self.body, self.note = prop, name, targets, body, note
        self.tiers, self.z3_ms, self.cvc5_ms = tiers, z3_ms, cvc5_ms
        self.bounded = bounded      # None: unbounded proof unit; str: bounded symbolic unit (bound stated)
        self.rewrite_log = []

    def __repr__(self):
        return "Unit(%s/%s)" % (self.prop, self.name)


def unit(prop, name, targets, note="", bounded=None, tiers=("quick", "thorough"), z3_ms=None, cvc5_ms=None, feas_ms=None):
    """Decorator: register a unit.  targets = [(module_name, qualname), ...] functions of /repo
    whose real bodies this unit executes under contract."""
    def deco(f):
        u = Unit(prop, name, targets, f, note, bounded, tiers, z3_ms, cvc5_ms, feas_ms)
        Unit.registry.append(u)
        f.unit = u
        return f
    return deco


def load_repo_module(modname):
    if REPO not in sys.path:
        sys.path.insert(0, REPO)
    return importlib.import_module(modname)


class API:
    """Mixin giving both contexts the unit-facing helpers."""

    def fn(self, modname, qualname, loops=None, closure=None, cells=None, route=True):
        """The function under contract.  Symbolic: mechanically rewritten (loops cut at the given
        LoopSpecs, len()/isinstance()/... routed); concrete: the unmodified real function.
        closure: name of a nested def/lambda (closure unit) instantiated with `cells`."""
        mod = load_repo_module(modname)
        real = rewrite.get_function(mod, qualname)
        real = getattr(real, "__pyvc_original__", real)
        loops = loops or {}
        u = self.__dict__.setdefault("rewrite_log", [])
        if not self.symbolic:
            if closure:
                f, _ = rewrite.instantiate_closure_plain(real, closure, cells)
                return f
            return real
        routed = self.__dict__.setdefault("_routed", {})
        if modname not in routed:
            # the callees of the function under contract may live in any tornado module: route them all
            for n2, m2 in list(sys.modules.items()):
                if (n2 == modname or n2.startswith("tornado.")) and not n2.startswith("tornado.test") and n2 not in routed and m2 is not None:
                    routed[n2] = rewrite.route_module(m2)
            real = rewrite.get_function(mod, qualname)
            real = getattr(real, "_pyvc_original__", real)
        old = self.ghost.setdefault("old", {})
        hooks = rewrite.make_hooks(self, self.unit, loops, old)
        g = real.__globals__
        g.update(rewrite.HELPERS)
        g.update(hooks)
        cut = () if getattr(self, "unroll", False) else tuple(sorted(loops))
        if closure:
            f, log = rewrite.instantiate_closure(real, closure, cells, cut, route)
        else:
            f, log = rewrite.rewrite_function(real, cut, route=route)
        for l in log:
            ent = "%s.%s: %s" % (modname, qualname, l)
            if ent not in u:
                u.append(ent)
        return f

    @contextlib.contextmanager
    def patched(self, *triples):
        """patched((obj, attr, value), ...): temporarily replace attributes (contract stubs /
        library models / environment doubles)."""
        saved = []
        try:
            for obj, attr, val in triples:
                had = attr in vars(obj) if not isinstance(obj, dict) else attr in obj
                if isinstance(obj, dict):
                    saved.append((obj, attr, obj.get(attr), had))
                    obj[attr] = val
                else:
                    saved.append((obj, attr, getattr(obj, attr, None) if not had else vars(obj)[attr], had))
                    setattr(obj, attr, val)
            yield
        finally:
            for obj, attr, val, had in reversed(saved):
                if isinstance(obj, dict):
                    if had:
                        obj[attr] = val
                    else:
                        obj.pop(attr, None)
                elif had:
                    setattr(obj, attr, val)
                else:
                    try:
                        delattr(obj, attr)
                    except AttributeError:
                        pass

    def call(self, f, *a, **kw):
        try:
            return Outcome("return", f(*a, **kw))
        except (core.PathEnd, core.Unsupported):
            raise
        except BaseException as e:  # the real code's own exceptional exit
            return Outcome("raise", exc=e)

    def drive(self, coro, on_await=None, max_steps=50):
        """Step a coroutine (async def of /repo run natively): each awaited stub object is handed
        to on_await(obj) -> ("send", value) | ("throw", exc).  Returns the Outcome."""
        try:
            action, payload = "send", None
            for _ in range(max_steps):
                try:
                    awaited = coro.send(payload) if action == "send" else coro.throw(payload)
                except StopIteration as e:
                    return Outcome("return", e.value)
                except (core.PathEnd, core.Unsupported):
                    raise
                except BaseException as e:
                    return Outcome("raise", exc=e)
                action, payload = on_await(awaited) if on_await else ("send", None)
            raise core.Unsupported("coroutine did not finish within %d awaits" % max_steps)
        finally:
            try:
                coro.close()
            except BaseException:
                pass

    def only_raises(self, out, allowed, label=""):
        """raises(only=allowed): an exit by any other exception must be infeasible."""
        if out.raised and not isinstance(out.exc, allowed):
            if isinstance(out.exc, (AttributeError, TypeError)) and _on_proxy(out.exc):
                # a method / operation the proxy type does not model: an engine limit, not the code's exception
                raise core.Unsupported("proxy does not model: %s" % (str(out.exc)[:120],))
            if isinstance(out.exc, AttributeError) and _missing_init_field(out.exc):
                # the object under test was built by the unit without running __init__, and the code now reads a field
                # that __init__ establishes (e.g. one added by an edit): the harness is out of date, the code is not at fault
                raise core.Unsupported("harness object lacks the field %r that %s.__init__ (or a method it runs) sets" % (out.exc.name, type(out.exc.obj).__name__))
            if isinstance(out.exc, AttributeError) and _on_harness_double(out.exc):
                # the code asked a stand-in object of the unit (a SimpleNamespace / a class defined in the contract file) for something it does not model
                raise core.Unsupported("harness double does not model .%s (%s)" % (getattr(out.exc, "name", "?"), type(out.exc.obj).__name__))
            site = _site(out.exc)
            if site == "?":
                # no frame of /repo in the traceback: raised by the harness / a proxy, not by the code under proof
                raise core.Unsupported("exception outside /repo code: %s: %s" % (type(out.exc).__name__, str(out.exc)[:120]))
            if os.environ.get("PYVC_DEBUG") and self.symbolic:
                import traceback
                traceback.print_exception(out.exc)
            self.ghost["last_exc"] = "%s: %s @%s" % (type(out.exc).__name__, str(out.exc)[:80], site)
            self.infeasible("%sraises-only/%s@%s" % (label, type(out.exc).__name__, site), kind="raises")
            return False
        return True

    def unroute(self):
        for undo in self.__dict__.get("_routed", {}).values():
            rewrite.unroute(undo)
        self.__dict__["_routed"] = {}

    def known(self, fid):
        """True when finding `fid` is listed as status=known (witness class is then excluded by
        the unit with an extra precondition)."""
        return fid in getattr(self, "known_ids", ())


def _on_proxy(exc):
    from .proxies import Proxy
    obj = getattr(exc, "obj", None)
    if isinstance(obj, Proxy):
        return True
    msg = str(exc)
    names = ("SStr", "SInt", "SBool", "SReal", "SSeq", "SDict", "SFut")
    if isinstance(exc, TypeError) and any(("'%s'" % n) in msg or ("got %s" % n) in msg or ("not %s" % n) in msg for n in names):
        # a C-level function refused a proxy ("expected string or bytes-like object, got 'SStr'", "... must be str, not SStr"): nothing the real code does with a real value
        return True
    return isinstance(exc, AttributeError) and any(("'%s' object has no attribute" % n) in msg for n in names)


def _on_harness_double(exc):
    """AttributeError for `obj.name` where obj is a types.SimpleNamespace or an instance (or class) defined in a contract file / the engine, i.e. a double the unit put in place"""
    import types as _types
    obj = getattr(exc, "obj", None)
    if obj is None or not getattr(exc, "name", None):
        return False
    if isinstance(obj, _types.SimpleNamespace):
        return True
    klass = obj if isinstance(obj, type) else type(obj)
    mod = sys.modules.get(getattr(klass, "__module__", None))
    f = getattr(mod, "__file__", "") or ""
    return f.startswith("/verif/")


def _missing_init_field(exc):
    """AttributeError for `obj.name` where some __init__ in type(obj)'s MRO assigns self.name."""
    obj, name = getattr(exc, "obj", None), getattr(exc, "name", None)
    if obj is None or not name or isinstance(obj, type):
        return False
    import re as _re
    pats = (r"\bself\.%s\b\s*(?::[^=\n]+)?=[^=]" % _re.escape(name), r"\bself\.%s\s*," % _re.escape(name))
    for klass in type(obj).__mro__:
        init = vars(klass).get("__init__")
        if init is None:
            continue
        try:
            src = inspect.getsource(init)
        except (OSError, TypeError):
            continue
        if any(_re.search(p_, src) for p_ in pats):
            return True
    # ... or by a method that __init__ runs (RequestHandler.__init__ -> clear() sets the per-response fields): the class's own source assigns the field somewhere
    for klass in type(obj).__mro__:
        if klass is object or "/repo/" not in (getattr(sys.modules.get(klass.__module__), "__file__", "") or ""):
            continue
        try:
            src = inspect.getsource(klass)
        except (OSError, TypeError):
            continue
        if any(_re.search(p_, src) for p_ in pats):
            return True
    return False


def _site(exc):
    """name of the innermost /repo function on the traceback; "?" when the exception was raised by
    harness / engine code (innermost frame under /verif), which is never the code under proof's fault."""
    tb = exc.__traceback__
    last, innermost = None, None
    while tb is not None:
        fn = tb.tb_frame.f_code.co_filename
        innermost = fn
        if "/repo/" in fn or fn.startswith(REPO):
            last = tb.tb_frame.f_code.co_name
        tb = tb.tb_next
    if innermost is not None and innermost.startswith("/verif/") and getattr(exc, "pyvc_modelled", False):
        # raised by a contract stub that *models* a library function's documented exceptional outcome
        return last or "?"
    if innermost is not None and innermost.startswith("/verif/"):
        # exceptions raised by the library *models* (futures, containers, strings) are the modelled
        # behaviour of the real library; anything else raised under /verif is a harness/engine problem
        import asyncio
        modelled = (asyncio.InvalidStateError, asyncio.CancelledError, IndexError, KeyError, ValueError,
                    StopIteration, UnicodeError, ZeroDivisionError, OverflowError)
        if "/verif/pyvc/" in innermost and isinstance(exc, modelled) and "/standin/" not in innermost:
            return last or "?"
        return "?"
    return last or "?"


def _plain_closure(real, name, cells):
    import types
    code = rewrite.nested_code(real, name)
    cs = tuple(types.CellType(cells[v]) for v in code.co_freevars)
    return types.FunctionType(code, real.__globals__, rewrite.want_name(name), None, cs), []


rewrite.instantiate_closure_plain = _plain_closure


class SymUnitCtx(API, core.SymCtx):
    pass


class ConcUnitCtx(API, core.ConcCtx):
    pass
