"""Python `re` patterns -> SMT regular expressions (DESIGN §2.6).

The compiled pattern objects are read from the imported /repo module (so f-string-built patterns are
taken as the runtime sees them), parsed with the runtime's own re._parser, and the regular subset is
translated to z3 regex terms.  fullmatch = membership; match/search add .*; `$` keeps Python's meaning
(end, or just before a trailing newline).  Capture groups are supported for patterns that are a
top-level concatenation; the split into groups must be unique (checked by an SMT query per pattern).
Unsupported constructs (look-around, back-references, \\b) raise Unsupported.
"""
from __future__ import annotations

import re
import re._constants as C
import re._parser as P
import sys
import unicodedata

import z3

from . import core
from .proxies import SStr, SBool, SInt, cx, _sz

MAXCH = 0x2FFFF      # z3's character range is 0 .. 0x2FFFF
_ND = None


def _nd_ranges():
    global _ND
    if _ND is None:
        out, start, prev = [], None, None
        for cp in range(0x30, 0x20000):
            if unicodedata.category(chr(cp)) == "Nd":
                if start is None:
                    start = cp
                elif cp != prev + 1:
                    out.append((start, prev)); start = cp
                prev = cp
        if start is not None:
            out.append((start, prev))
        _ND = out
    return _ND


def _rng(a, b):
    return z3.Range(chr(a), chr(b)) if a != b else z3.Re(chr(a))


def _union(xs):
    xs = list(xs)
    if not xs:
        return z3.Empty(z3.ReSort(z3.StringSort()))
    return xs[0] if len(xs) == 1 else z3.Union(*xs)


def _ch(cp):
    return z3.Re(chr(cp))


class Tr:
    def __init__(self, pattern, narrow=False):
        self.narrow = narrow         # subject known to be latin-1 text: Nd digits / whitespace reduce to their latin-1 part
        self.p = pattern
        self.is_bytes = isinstance(pattern.pattern, bytes)
        self.flags = pattern.flags
        self.maxch = 0xFF if (self.is_bytes or narrow) else MAXCH
        self.ascii = self.is_bytes or bool(self.flags & re.ASCII)
        self.icase = bool(self.flags & re.IGNORECASE)
        self.dotall = bool(self.flags & re.DOTALL)
        if self.flags & re.MULTILINE:
            raise core.Unsupported("re.MULTILINE")
        self.tree = P.parse(pattern.pattern, pattern.flags & ~re.UNICODE if self.is_bytes else pattern.flags)
        self.groups = {}

    def anychar(self):
        return _rng(0, self.maxch)

    def category(self, cat):
        name = str(cat)
        neg = "NOT_" in name
        if "DIGIT" in name:
            r = [_rng(0x30, 0x39)] if (self.ascii or self.narrow) else [_rng(a, b) for a, b in _nd_ranges()]
            base = _union(r)
        elif "SPACE" in name:
            sp = [(9, 13), (32, 32)] if self.ascii else [(9, 13), (28, 32), (0x85, 0x85), (0xA0, 0xA0)] if self.narrow else [(9, 13), (28, 32), (0x85, 0x85), (0xA0, 0xA0), (0x1680, 0x1680),
                                                          (0x2000, 0x200A), (0x2028, 0x2029), (0x202F, 0x202F), (0x205F, 0x205F), (0x3000, 0x3000)]
            base = _union(_rng(a, b) for a, b in sp)
        elif "WORD" in name:
            if not self.ascii:
                raise core.Unsupported("\\w in a unicode pattern")
            base = _union([_rng(0x30, 0x39), _rng(0x41, 0x5A), _rng(0x61, 0x7A), _ch(0x5F)])
        else:
            raise core.Unsupported("category %s" % name)
        return z3.Intersect(self.anychar(), z3.Complement(base)) if neg else base

    def lit(self, cp):
        if self.icase and chr(cp).lower() != chr(cp).upper():
            return z3.Union(_ch(ord(chr(cp).lower())), _ch(ord(chr(cp).upper())))
        return _ch(cp)

    def cls(self, items):
        neg = False
        parts = []
        for op, av in items:
            if op is C.NEGATE:
                neg = True
            elif op is C.LITERAL:
                parts.append(self.lit(av))
            elif op is C.RANGE:
                lo, hi = av
                parts.append(_rng(lo, hi))
                if self.icase:
                    for a, b in ((0x41, 0x5A), (0x61, 0x7A)):
                        l2, h2 = max(lo, a), min(hi, b)
                        if l2 <= h2:
                            d = 32 if a == 0x41 else -32
                            parts.append(_rng(l2 + d, h2 + d))
            elif op is C.CATEGORY:
                parts.append(self.category(av))
            else:
                raise core.Unsupported("class item %s" % op)
        u = _union(parts)
        return z3.Intersect(self.anychar(), z3.Complement(u)) if neg else u

    def seq(self, items, top=False):
        """list of (regex, group_no|None) for a sequence."""
        out = []
        for op, av in items:
            out.append(self.item(op, av))
        return out

    def concat(self, res):
        res = [r for r in res]
        if not res:
            return z3.Re("")
        return res[0] if len(res) == 1 else z3.Concat(*res)

    def item(self, op, av):
        if op is C.LITERAL:
            return self.lit(av)
        if op is C.NOT_LITERAL:
            return z3.Intersect(self.anychar(), z3.Complement(self.lit(av)))
        if op is C.ANY:
            return self.anychar() if self.dotall else z3.Intersect(self.anychar(), z3.Complement(_ch(10)))
        if op is C.IN:
            return self.cls(av)
        if op in (C.MAX_REPEAT, C.MIN_REPEAT):
            lo, hi, sub = av
            r = self.concat(self.seq(sub))
            if hi is C.MAXREPEAT:
                if lo == 0:
                    return z3.Star(r)
                if lo == 1:
                    return z3.Plus(r)
                return z3.Concat(z3.Loop(r, lo, lo), z3.Star(r))
            return z3.Loop(r, lo, hi) if hi > 0 else z3.Re("")
        if op is C.SUBPATTERN:
            gid, add, dele, sub = av
            r = self.concat(self.seq(sub))
            if gid is not None:
                self.groups[gid] = r
            return r
        if op is C.BRANCH:
            _, alts = av
            return _union(self.concat(self.seq(a)) for a in alts)
        if op is C.AT:
            raise core.Unsupported("anchor %s inside a pattern" % av)
        raise core.Unsupported("regex construct %s" % op)

    def split_anchors(self):
        """strip a leading ^ / \\A and a trailing $ / \\Z; returns (items, anchored_start, end_kind)."""
        items = list(self.tree)
        start, end = False, None
        if items and items[0][0] is C.AT and items[0][1] in (C.AT_BEGINNING, C.AT_BEGINNING_STRING):
            start = True
            items = items[1:]
        if items and items[-1][0] is C.AT and items[-1][1] in (C.AT_END, C.AT_END_STRING):
            end = "dollar" if items[-1][1] is C.AT_END else "Z"
            items = items[:-1]
        return items, start, end


_CACHE = {}


def translate(pattern, narrow=False):
    """z3 regex for the language of `pattern` between its anchors; plus anchor info."""
    key = (pattern.pattern, pattern.flags, narrow)
    if key not in _CACHE:
        t = Tr(pattern, narrow)
        items, start, end = t.split_anchors()
        body = t.concat(t.seq(items))
        _CACHE[key] = (t, items, body, start, end)
    return _CACHE[key]


def lang_fullmatch(pattern, narrow=False):
    """regex R such that pattern.fullmatch(s) is not None  <=>  s in R."""
    t, items, body, start, end = translate(pattern, narrow)
    if end == "dollar":
        return z3.Union(body, z3.Concat(body, z3.Re("\n")))
    return body


def lang_match(pattern, narrow=False):
    """pattern.match(s) is not None <=> s in R."""
    t, items, body, start, end = translate(pattern, narrow)
    anyc = z3.Star(t.anychar())
    if end == "Z":
        return body
    if end == "dollar":
        return z3.Union(body, z3.Concat(body, z3.Re("\n")))
    return z3.Concat(body, anyc)


def lang_search(pattern, narrow=False):
    t, items, body, start, end = translate(pattern, narrow)
    anyc = z3.Star(t.anychar())
    r = lang_match(pattern, narrow)
    return r if start else z3.Concat(anyc, r)


def _single_char_alternatives(real):
    """['\r', '\n'] for patterns like  \r|\n  or  [\r\n]  (no anchors, no groups); else None."""
    try:
        t, items, body, start, end = translate(real)
    except core.Unsupported:
        return None
    if start or end or real.groups or len(items) != 1:
        return None
    op, av = items[0]
    out = []
    if op is C.BRANCH:
        for alt in av[1]:
            if len(alt) == 1 and alt[0][0] is C.LITERAL:
                out.append(chr(alt[0][1]))
            else:
                return None
        return out
    if op is C.IN:
        for o2, a2 in av:
            if o2 is C.LITERAL:
                out.append(chr(a2))
            else:
                return None
        return out
    if op is C.LITERAL:
        return [chr(av)]
    return None


class SMatch:
    """match object over symbolic groups (top-level concatenation patterns with a unique split)."""
    def __init__(self, sp, subject, parts):
        self.sp, self.subject, self.parts = sp, subject, parts     # parts: list of (SStr, group_no|None)

    def group(self, *ks):
        if not ks:
            ks = (0,)
        out = []
        for k in ks:
            if k == 0:
                out.append(self.subject)
            else:
                g = [p for p, gno in self.parts if gno == k]
                if not g:
                    raise core.Unsupported("group %r of %r is not a top-level group" % (k, self.sp.real.pattern))
                out.append(g[0])
        return out[0] if len(out) == 1 else tuple(out)

    def groups(self, default=None):
        n = self.sp.real.groups
        return tuple(self.group(k) for k in range(1, n + 1))

    def __getitem__(self, k):
        return self.group(k)

    def start(self, k=0):
        if k == 0:
            return 0
        raise core.Unsupported("match.start(group)")

    def end(self, k=0):
        if k == 0:
            return self.subject.length() if self.sp.kind_full else core.Unsupported
        raise core.Unsupported("match.end(group)")


class SPattern:
    """Stands for a compiled pattern in the module under proof: real behaviour on real strings,
    SMT membership on symbolic strings."""
    def __init__(self, real):
        self.real = real
        self.pattern, self.flags, self.groups = real.pattern, real.flags, real.groups
        self.kind_full = True

    def _mem(self, s, lang):
        c = cx()
        c.use_model("regex %r as an SMT regular expression (A-REGEX)" % (self.real.pattern,))
        return z3.InRe(s.t, lang)

    def _match_obj(self, s, mode):
        """fork on match / no match; on match build the group split."""
        c = cx()
        lang = {"fullmatch": lang_fullmatch, "match": lang_match, "search": lang_search}[mode](self.real, s.narrow)
        chars = _single_char_alternatives(self.real) if mode == "search" else None
        if chars is not None:
            # search for one of a few literal characters: the same condition as `contains`, which combines
            # with other string facts much better than a regex membership
            c.use_model("regex %r as an SMT regular expression (A-REGEX)" % (self.real.pattern,))
            cond = z3.Or([z3.Contains(s.t, z3.StringVal(ch)) for ch in chars])
        else:
            cond = self._mem(s, lang)
        if not c.branch(cond):
            return None
        if self.real.groups == 0:
            return SMatch(self, s, [])
        if mode != "fullmatch":
            t, items, body, start, end = translate(self.real, s.narrow)
            if not (start and end) and mode == "search" or (mode == "match" and not end):
                raise core.Unsupported("groups of a non-anchored %s" % mode)
        return self._split(s)

    def _split(self, s):
        c = cx()
        t, items, body, start, end = translate(self.real, s.narrow)
        parts, terms = [], []
        for k, (op, av) in enumerate(items):
            r = t.item(op, av)
            gno = av[0] if op is C.SUBPATTERN else None
            optional_group = False
            if op in (C.MAX_REPEAT, C.MIN_REPEAT) and len(av[2]) == 1 and av[2][0][0] is C.SUBPATTERN and av[0] == 0 and av[1] == 1:
                gno = av[2][0][1][0]
                optional_group = True
            if op is C.LITERAL and not t.icase:
                v = SStr(z3.StringVal(chr(av)), s.is_bytes)
            else:
                v = SStr(z3.String(c.fresh_name("re_g%d" % k)), s.is_bytes)
                c.assume_z3(z3.InRe(v.t, r))
            parts.append((v, gno, optional_group))
            terms.append(v.t)
        whole = z3.Concat(*terms) if len(terms) > 1 else terms[0]
        if end == "dollar":
            c.assume_z3(z3.Or(s.t == whole, s.t == z3.Concat(whole, z3.StringVal("\n"))))
        else:
            c.assume_z3(s.t == whole)
        _check_unique_split(self.real)
        out = []
        for v, gno, opt in parts:
            if opt:
                # optional group: None when it did not participate (empty alternative)
                out.append((v if c.branch(z3.Length(v.t) > 0) else None, gno))
            else:
                out.append((v, gno))
        return SMatch(self, s, out)

    def fullmatch(self, s, *a):
        if not isinstance(s, SStr):
            return self.real.fullmatch(s, *a)
        return self._match_obj(s, "fullmatch")

    def match(self, s, *a):
        if not isinstance(s, SStr):
            return self.real.match(s, *a)
        return self._match_obj(s, "match")

    def search(self, s, *a):
        if not isinstance(s, SStr):
            return self.real.search(s, *a)
        return self._match_obj(s, "search")

    def __getattr__(self, n):
        return getattr(self.real, n)


_UNIQ = {}


def _check_unique_split(real):
    """the group split of a concatenation pattern must be unique (else greedy order would matter)."""
    key = (real.pattern, real.flags)
    if key in _UNIQ:
        if not _UNIQ[key]:
            raise core.Unsupported("ambiguous group split for %r" % (real.pattern,))
        return
    t, items, body, start, end = translate(real)
    res = "n/a"
    _UNIQ[key] = len(items) <= 1 or _separator_argument(t, items)
    if not _UNIQ[key]:
        a, b = [], []
        s = z3.Solver()
        s.set("timeout", 8000)
        for k, (op, av) in enumerate(items):
            r = t.item(op, av)
            x, y = z3.String("ua%d" % k), z3.String("ub%d" % k)
            s.add(z3.InRe(x, r), z3.InRe(y, r))
            a.append(x); b.append(y)
        s.add(z3.Concat(*a) == z3.Concat(*b))
        s.add(z3.Or([x != y for x, y in zip(a, b)]))
        res = s.check()
        _UNIQ[key] = (res == z3.unsat)
    if not _UNIQ[key]:
        raise core.Unsupported("group split of %r not proved unique (%s)" % (real.pattern, res))


def _separator_argument(t, items):
    """sufficient syntactic-semantic condition for a unique split: the pattern alternates parts and
    single-character literal separators, and every part after (or every part before) a separator cannot
    contain that separator character."""
    kinds = [("lit", av) if (op is C.LITERAL) else ("part", t.item(op, av)) for op, av in items]
    # merge: require strict alternation part, lit, part, ...
    if not kinds or kinds[0][0] != "part" or len(kinds) % 2 == 0:
        return False
    for i, k in enumerate(kinds):
        if k[0] != ("part" if i % 2 == 0 else "lit"):
            return False

    def free(part_re, ch):
        y = z3.String("sa_y")
        s = z3.Solver()
        s.set("timeout", 5000)
        s.add(z3.InRe(y, part_re), z3.Contains(y, z3.StringVal(chr(ch))))
        return s.check() == z3.unsat
    right = all(free(kinds[i + 1][1], kinds[i][1]) for i in range(1, len(kinds), 2))
    if right:
        return True
    return all(free(kinds[i - 1][1], kinds[i][1]) for i in range(1, len(kinds), 2))


class ReModule:
    """stands for the `re` module inside a module under proof."""
    def __init__(self):
        self._re = re

    def __getattr__(self, n):
        return getattr(self._re, n)

    def compile(self, pat, flags=0):
        return SPattern(re.compile(pat, flags))

    def match(self, pat, s, flags=0):
        return SPattern(re.compile(pat, flags)).match(s)

    def fullmatch(self, pat, s, flags=0):
        return SPattern(re.compile(pat, flags)).fullmatch(s)

    def search(self, pat, s, flags=0):
        return SPattern(re.compile(pat, flags)).search(s)


def regex_patches(mod, holders=()):
    """(obj, attr, value) triples replacing every compiled pattern global of `mod` (and of the holder
    objects, e.g. httputil._ABNF) by an SPattern, and `re` by ReModule."""
    out = []
    for name, v in list(vars(mod).items()):
        if isinstance(v, re.Pattern):
            out.append((mod, name, SPattern(v)))
    if getattr(mod, "re", None) is re:
        out.append((mod, "re", ReModule()))
    for h in holders:
        for name in dir(h):
            v = getattr(h, name, None)
            if isinstance(v, re.Pattern):
                out.append((h, name, SPattern(v)))
    return out


def in_lang(s, pattern, mode="fullmatch"):
    """spec-level membership (no fork): SBool / bool."""
    lang = {"fullmatch": lang_fullmatch, "match": lang_match, "search": lang_search}[mode](pattern, getattr(s, "narrow", False))
    if isinstance(s, SStr):
        return SBool(z3.InRe(s.t, lang))
    return getattr(pattern, mode)(s) is not None


def re_of(regex_text, flags=0, is_bytes=False):
    """spec regex written in the contract file (python syntax) -> z3 regex (fullmatch language)."""
    p = re.compile(regex_text.encode("latin1") if is_bytes else regex_text, flags)
    return lang_fullmatch(p)
