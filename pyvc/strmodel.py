"""Library models for int()/str() and string methods on symbolic strings (DESIGN §3; A-STDLIB).

int(s): CPython accepts  ws* [+-]? D+ (_ D+)* ws*  (Unicode Nd digits / Unicode whitespace for str) and
raises ValueError otherwise - and, since 3.11, for more than 4300 digits.  The *value* is exact
(str.to_int) for plain ASCII digit strings; for the other accepted spellings it is an uninterpreted function
of the text, so no contract can depend on it by accident.
"""
import z3

from . import core, regex
from .proxies import SStr, SInt, SBool, cx

PY_INT_VALUE = z3.Function("py_int_value", z3.StringSort(), z3.IntSort(), z3.IntSort())   # (text, base) -> value
HEX_VALUE = z3.Function("hex_value", z3.StringSort(), z3.IntSort())


def _re(txt):
    return regex.re_of(txt)


_L = {}


def langs():
    if not _L:
        ws = r"[\t-\r\x1c- \x85\xa0  -     　]*"
        _L["pure10"] = _re(r"[0-9]+")
        _L["pure16"] = _re(r"[0-9a-fA-F]+")
        _L["acc10"] = _re(ws + r"[+-]?\d+(?:_\d+)*" + ws)
        _L["acc10b"] = _re(r"[\t-\r ]*[+-]?[0-9]+(?:_[0-9]+)*[\t-\r ]*")
        _L["acc10n"] = _re(r"[\t-\r\x1c- \x85\xa0]*[+-]?[0-9]+(?:_[0-9]+)*[\t-\r\x1c- \x85\xa0]*")
        _L["acc16"] = _re(ws + r"[+-]?(?:0[xX]_?)?[0-9a-fA-F]+(?:_[0-9a-fA-F]+)*" + ws)
    return _L


def model_int(s, base=10):
    c = cx()
    c.use_model("int(str) model incl. the 4300-digit limit (A-STDLIB)")
    L = langs()
    if base == 10:
        pure, acc = L["pure10"], (L["acc10b"] if s.is_bytes else (L["acc10n"] if s.narrow else L["acc10"]))
    elif base == 16:
        pure, acc = L["pure16"], L["acc16"]
    else:
        raise core.Unsupported("int(s, %r)" % (base,))
    n = z3.Length(s.t)
    if c.branch(z3.InRe(s.t, pure)):
        if base == 10:
            if c.branch(n > 4300):
                raise ValueError("Exceeds the limit (4300 digits) for integer string conversion")
            v = z3.StrToInt(s.t)
            if getattr(c, "int_canonical_lemma", False):
                # true fact about decimal notation, stated for the solver: a digit string without leading zeros
                # is the canonical text of its value (lets `int(s) == 2` imply `s == "2"`)
                c.assume_z3(z3.Implies(z3.InRe(s.t, _re(r"0|[1-9][0-9]*")), s.t == z3.IntToStr(v)))
            return SInt(v)
        if getattr(c, "unroll", False):
            # witness search may restrict inputs: one hex digit, exact value (so that the model replays natively)
            code = z3.StrToCode(s.t)
            c.assume_z3(z3.Length(s.t) == 1)
            c.assume_z3(HEX_VALUE(s.t) == z3.If(code <= 57, code - 48, z3.If(code <= 70, code - 55, code - 87)))
        c.assume_z3(HEX_VALUE(s.t) >= 0)
        c.assume_z3((HEX_VALUE(s.t) == 0) == z3.InRe(s.t, _re("0+")))
        return SInt(HEX_VALUE(s.t))
    if c.branch(z3.InRe(s.t, acc)):
        if base == 10 and c.branch(n > 4300):
            if c.choose("int() digit limit hit", [True, False]):
                raise ValueError("Exceeds the limit (4300 digits) for integer string conversion")
        return SInt(PY_INT_VALUE(s.t, z3.IntVal(base)))
    raise ValueError("invalid literal for int() with base %d" % base)


def make_int_abs(c, rec=None):
    """int(text) for this property's units (A-STDLIB), phrased so that no query asks the string solver for a
    4300-character witness or for digit arithmetic: three outcomes - plain ASCII digits (value = str.to_int(text),
    used only as an opaque integer term; CPython's digit limit may still raise), another spelling int() accepts
    (signs, underscores, surrounding whitespace: some integer), anything else ValueError."""
    from . import rewrite
    real = rewrite.HELPERS["_pyvc_int"]
    L = langs()

    def int_abs(x=0, base=10):
        if not isinstance(x, SStr) or base != 10:
            return real(x, base)
        c.use_model("int(text): plain digits -> str.to_int; other accepted spellings -> some integer; else ValueError; digit limit may raise (A-STDLIB)")
        short = rec is not None and any(x is y for y in rec.get("short_texts", []))     # texts the contract knows to be short
        if short and any(x is y for y in rec.get("digit_texts", [])):
            # the contract has assumed this very text to be a short plain digit string: no solver query needed
            v = z3.StrToInt(x.t)
            c.assume_z3(v >= 0)
            rec.setdefault("int_results", []).append((x, SInt(v)))
            return SInt(v)
        if c.branch(z3.InRe(x.t, L["pure10"])):
            if not short and c.choose("int() digit limit hit", [False, True]):
                # (the limit is 4300 digits; asking the string solver for such a witness is hopeless, and all that
                #  matters to a caller's contract is that short texts cannot hit it: over-approximated by "> 20")
                c.assume_z3(z3.Length(x.t) > 20)
                raise ValueError("Exceeds the limit (4300 digits) for integer string conversion")
            v = z3.StrToInt(x.t)
            c.assume_z3(v >= 0)
            if rec is not None:
                rec.setdefault("int_results", []).append((x, SInt(v)))
            return SInt(v)
        if c.branch(z3.InRe(x.t, L["acc10b"] if x.is_bytes else L["acc10"])):
            if not short and c.choose("int() digit limit hit", [False, True]):
                c.assume_z3(z3.Length(x.t) > 20)
                raise ValueError("Exceeds the limit (4300 digits) for integer string conversion")
            r = SInt(PY_INT_VALUE(x.t, z3.IntVal(10)))
            if rec is not None:
                rec.setdefault("int_results", []).append((x, r))
            return r
        raise ValueError("invalid literal for int() with base 10")
    return int_abs


def model_str_of_int(x):
    cx().use_model("str(int) as int.to.str (A-STDLIB)")
    t = x.t
    return SStr(z3.If(t >= 0, z3.IntToStr(t), z3.Concat(z3.StringVal("-"), z3.IntToStr(-t))), False)


def dec_value(s):
    """spec function: value of a plain ASCII decimal string."""
    return SInt(z3.StrToInt(s.t)) if isinstance(s, SStr) else int(s)


def hex_value(s):
    return SInt(HEX_VALUE(s.t)) if isinstance(s, SStr) else int(s, 16)


WS_STR = "\t\n\x0b\x0c\r\x1c\x1d\x1e\x1f \x85\xa0                　"
WS_BYTES = "\t\n\x0b\x0c\r "
WS_LATIN1 = "\t\n\x0b\x0c\r\x1c\x1d\x1e\x1f \x85\xa0"


def _charset_re(chars):
    return z3.Union(*[z3.Re(ch) for ch in chars]) if len(chars) > 1 else z3.Re(chars)


def strip_model(s, chars=None, left=True, right=True):
    """exact model of str.strip([chars]): s == l ++ r ++ t with l,t over `chars` and r not starting/ending
    with a char of `chars`."""
    c = cx()
    if chars is None:
        chars = WS_BYTES if s.is_bytes else (WS_LATIN1 if s.narrow else WS_STR)
    elif isinstance(chars, (bytes, bytearray)):
        chars = chars.decode("latin1")
    if isinstance(chars, SStr):
        raise core.Unsupported("strip() with symbolic chars")
    c.use_model("str.strip as a regex-constrained split (A-STDLIB)")
    cs = _charset_re(chars)
    anyc = z3.Range(chr(0), chr(0xFF if s.is_bytes else regex.MAXCH))
    notc = z3.Intersect(anyc, z3.Complement(cs))
    core_re = z3.Union(z3.Re(""), notc, z3.Concat(notc, z3.Star(anyc), notc))
    l = z3.String(c.fresh_name("strip_l")) if left else z3.StringVal("")
    t = z3.String(c.fresh_name("strip_t")) if right else z3.StringVal("")
    r = z3.String(c.fresh_name("strip_r"))
    if left:
        c.assume_z3(z3.InRe(l, z3.Star(cs)))
    if right:
        c.assume_z3(z3.InRe(t, z3.Star(cs)))
    if left and right:
        c.assume_z3(z3.InRe(r, core_re))
    elif left:
        c.assume_z3(z3.InRe(r, z3.Union(z3.Re(""), z3.Concat(notc, z3.Star(anyc)))))
    else:
        c.assume_z3(z3.InRe(r, z3.Union(z3.Re(""), z3.Concat(z3.Star(anyc), notc))))
    c.assume_z3(s.t == z3.Concat(l, r, t))
    return SStr(r, s.is_bytes)


def split_model(s, sep=None, maxsplit=-1):
    c = cx()
    if sep is None or isinstance(sep, SStr):
        raise core.Unsupported("split() without a concrete separator")
    z = s._other(sep)
    if maxsplit == 1:
        i = z3.IndexOf(s.t, z, 0)
        if c.branch(i >= 0):
            return [s._mk(z3.SubString(s.t, 0, i)), s._mk(z3.SubString(s.t, i + z3.Length(z), z3.Length(s.t)))]
        return [s]
    # unbounded split: only as a bounded unrolling (forks on each further occurrence)
    out, rest = [], s
    limit = 6
    while True:
        if maxsplit >= 0 and len(out) >= maxsplit:
            break
        i = z3.IndexOf(rest.t, z, 0)
        if not c.branch(i >= 0):
            break
        out.append(rest._mk(z3.SubString(rest.t, 0, i)))
        rest = rest._mk(z3.SubString(rest.t, i + z3.Length(z), z3.Length(rest.t)))
        if len(out) > limit:
            raise core.Unsupported("split() into more than %d pieces (bounded unrolling)" % limit)
    out.append(rest)
    return out


def install():
    """attach the models as SStr methods."""
    SStr.strip = lambda self, chars=None: strip_model(self, chars)
    SStr.lstrip = lambda self, chars=None: strip_model(self, chars, True, False)
    SStr.rstrip = lambda self, chars=None: strip_model(self, chars, False, True)
    SStr.split = lambda self, sep=None, maxsplit=-1: split_model(self, sep, maxsplit)
    SStr.isdigit = lambda self: SBool(z3.InRe(self.t, langs()["pure10"]))


install()
