"""Symbolic proxy values: CPython runs the real code, these stand in for its data.

Every proxy wraps a z3 term.  Comparison operators return SBool; using an SBool as a Python
truth value forks the path (core.SymCtx.branch).  Operations that cannot be modelled raise
core.Unsupported (a BaseException), never a wrong answer.
"""
from __future__ import annotations

import z3

from . import core

_CUR = [None]


def cx():
    return _CUR[0]


def set_cx(c):
    _CUR[0] = c


def is_sym(x):
    return isinstance(x, Proxy)


class Proxy:
    __slots__ = ()

    def __hash__(self):
        raise core.Unsupported("hash() of a symbolic %s" % type(self).__name__)

    def __index__(self):
        raise core.Unsupported("index/int() of a symbolic %s" % type(self).__name__)

    def __iter__(self):
        raise core.Unsupported("iteration over a symbolic %s" % type(self).__name__)

    # text conversions must never silently embed a proxy's repr into a real string
    def __str__(self):
        raise core.Unsupported("str()/%%s of a symbolic %s in unrouted code" % type(self).__name__)

    def __format__(self, spec):
        raise core.Unsupported("format()/f-string of a symbolic %s in unrouted code" % type(self).__name__)


# ------------------------------------------------------------------ booleans
class SBool(Proxy):
    __slots__ = ("t",)

    def __init__(self, t):
        self.t = t

    def __bool__(self):
        return cx().branch(self.t)

    def __and__(self, o):
        return SBool(z3.And(self.t, core._b(o)))

    __rand__ = __and__

    def __or__(self, o):
        return SBool(z3.Or(self.t, core._b(o)))

    __ror__ = __or__

    def __invert__(self):
        return SBool(z3.Not(self.t))

    def __eq__(self, o):
        return SBool(self.t == core._b(o))

    def __ne__(self, o):
        return SBool(self.t != core._b(o))

    def __repr__(self):
        return "SBool(%s)" % self.t

    __hash__ = Proxy.__hash__


def _lift_bool(x):
    return x if isinstance(x, SBool) else SBool(core._b(x))


# ------------------------------------------------------------------ integers
def _iz(x):
    """python int / SInt / SBool -> z3 Int term; else None."""
    if isinstance(x, SInt):
        return x.t
    if isinstance(x, bool):
        return z3.IntVal(int(x))
    if isinstance(x, int):
        return z3.IntVal(x)
    if isinstance(x, SBool):
        return z3.If(x.t, z3.IntVal(1), z3.IntVal(0))
    return None


class SInt(Proxy):
    __slots__ = ("t",)

    def __init__(self, t):
        self.t = t

    def _bin(self, o, f, rev=False):
        if isinstance(o, SReal) or isinstance(o, float):
            a = SReal(z3.ToReal(self.t))
            return NotImplemented if isinstance(o, SReal) and not rev else a._bin(o, f, rev)
        z = _iz(o)
        if z is None:
            return NotImplemented
        return SInt(z3.simplify(f(z, self.t) if rev else f(self.t, z)))

    def __add__(self, o): return self._bin(o, lambda a, b: a + b)
    def __radd__(self, o): return self._bin(o, lambda a, b: a + b, True)
    def __sub__(self, o): return self._bin(o, lambda a, b: a - b)
    def __rsub__(self, o): return self._bin(o, lambda a, b: a - b, True)
    def __mul__(self, o): return self._bin(o, lambda a, b: a * b)
    def __rmul__(self, o): return self._bin(o, lambda a, b: a * b, True)
    def __neg__(self): return SInt(-self.t)
    def __pos__(self): return self
    def __abs__(self): return SInt(z3.If(self.t >= 0, self.t, -self.t))

    # bit operations: exact for the shapes that have an integer-arithmetic meaning, loud otherwise
    def __and__(self, o):
        if isinstance(o, int) and not isinstance(o, bool) and o >= 0 and (o & (o + 1)) == 0:
            return SInt(self.t % (o + 1))            # x & (2^k - 1) == x mod 2^k (Python semantics, also for negative x)
        raise core.Unsupported("bitwise & on a symbolic int with %r" % (o,))

    __rand__ = __and__

    def __rshift__(self, o):
        if isinstance(o, int) and o >= 0:
            return SInt(_floordiv(self.t, z3.IntVal(2 ** o)))
        raise core.Unsupported("symbolic shift amount")

    def __lshift__(self, o):
        if isinstance(o, int) and o >= 0:
            return SInt(self.t * (2 ** o))
        raise core.Unsupported("symbolic shift amount")

    def __or__(self, o):
        raise core.Unsupported("bitwise | on a symbolic int")

    def __xor__(self, o):
        raise core.Unsupported("bitwise ^ on a symbolic int")

    __ror__ = __or__
    __rxor__ = __xor__

    def __floordiv__(self, o):
        return self._bin(o, _floordiv)

    def __rfloordiv__(self, o):
        return self._bin(o, _floordiv, True)

    def __mod__(self, o):
        return self._bin(o, _pymod)

    def __rmod__(self, o):
        if isinstance(o, (str, bytes)):
            return NotImplemented
        return self._bin(o, _pymod, True)

    def __truediv__(self, o):
        return SReal(z3.ToReal(self.t)).__truediv__(o)

    def __rtruediv__(self, o):
        return SReal(z3.ToReal(self.t)).__rtruediv__(o)

    def _cmp(self, o, f):
        if isinstance(o, (SReal, float)):
            return SReal(z3.ToReal(self.t))._cmp(o, f)
        z = _iz(o)
        if z is None:
            return NotImplemented
        return SBool(z3.simplify(f(self.t, z)))

    def __lt__(self, o): return self._cmp(o, lambda a, b: a < b)
    def __le__(self, o): return self._cmp(o, lambda a, b: a <= b)
    def __gt__(self, o): return self._cmp(o, lambda a, b: a > b)
    def __ge__(self, o): return self._cmp(o, lambda a, b: a >= b)

    def __eq__(self, o):
        if o is None:
            return False
        r = self._cmp(o, lambda a, b: a == b)
        return False if r is NotImplemented else r

    def __ne__(self, o):
        if o is None:
            return True
        r = self._cmp(o, lambda a, b: a != b)
        return True if r is NotImplemented else r

    def __bool__(self):
        return cx().branch(self.t != 0)

    def __repr__(self):
        return "SInt(%s)" % self.t

    __hash__ = Proxy.__hash__


def _pymod(a, b):
    if z3.is_int_value(b) and b.as_long() > 0:
        return a % b
    r = a % b    # 0 <= r < |b|
    return z3.If(z3.Or(b > 0, r == 0), r, r + b)


# Python floor division: floor(a/b) = (a - pymod(a,b)) / b  (z3's div is Euclidean)
def _floordiv(a, b):
    if z3.is_int_value(b) and b.as_long() > 0:
        return a / b
    m = _pymod(a, b)
    # (a - m) is an exact multiple of b, so Euclidean div is exact
    return (a - m) / b


# ------------------------------------------------------------------ reals (float as exact real: A-FLOAT)
def _rz(x):
    if isinstance(x, SReal):
        return x.t
    if isinstance(x, SInt):
        return z3.ToReal(x.t)
    if isinstance(x, bool):
        return z3.RealVal(int(x))
    if isinstance(x, int):
        return z3.RealVal(x)
    if isinstance(x, float):
        from fractions import Fraction
        fr = Fraction(x)
        return z3.RealVal(fr.numerator) / z3.RealVal(fr.denominator)
    return None


class SReal(Proxy):
    __slots__ = ("t",)

    def __init__(self, t):
        self.t = t

    def _bin(self, o, f, rev=False):
        z = _rz(o)
        if z is None:
            return NotImplemented
        return SReal(z3.simplify(f(z, self.t) if rev else f(self.t, z)))

    def __add__(self, o): return self._bin(o, lambda a, b: a + b)
    def __radd__(self, o): return self._bin(o, lambda a, b: a + b, True)
    def __sub__(self, o): return self._bin(o, lambda a, b: a - b)
    def __rsub__(self, o): return self._bin(o, lambda a, b: a - b, True)
    def __mul__(self, o): return self._bin(o, lambda a, b: a * b)
    def __rmul__(self, o): return self._bin(o, lambda a, b: a * b, True)
    def __truediv__(self, o): return self._bin(o, lambda a, b: a / b)
    def __rtruediv__(self, o): return self._bin(o, lambda a, b: a / b, True)
    def __neg__(self): return SReal(-self.t)
    def __abs__(self): return SReal(z3.If(self.t >= 0, self.t, -self.t))

    def _cmp(self, o, f):
        z = _rz(o)
        if z is None:
            return NotImplemented
        return SBool(z3.simplify(f(self.t, z)))

    def __lt__(self, o): return self._cmp(o, lambda a, b: a < b)
    def __le__(self, o): return self._cmp(o, lambda a, b: a <= b)
    def __gt__(self, o): return self._cmp(o, lambda a, b: a > b)
    def __ge__(self, o): return self._cmp(o, lambda a, b: a >= b)

    def __eq__(self, o):
        if o is None:
            return False
        r = self._cmp(o, lambda a, b: a == b)
        return False if r is NotImplemented else r

    def __ne__(self, o):
        if o is None:
            return True
        r = self._cmp(o, lambda a, b: a != b)
        return True if r is NotImplemented else r

    def __bool__(self):
        return cx().branch(self.t != 0)

    def floor(self):
        return SInt(z3.ToInt(self.t))

    def __floor__(self):           # math.floor(x) delegates here
        return SInt(z3.ToInt(self.t))

    def __ceil__(self):
        return SInt(-z3.ToInt(-self.t))

    def __round__(self, ndigits=None):
        """round(x): nearest integer, ties to even (CPython float.__round__; exact reals: A-FLOAT)."""
        if ndigits is not None:
            raise core.Unsupported("round(x, ndigits) on a symbolic real")
        half = self.t + z3.RealVal(1) / 2
        fl = z3.ToInt(half)
        tie = z3.ToReal(fl) == half
        return SInt(z3.If(z3.And(tie, fl % 2 != 0), fl - 1, fl))

    def __repr__(self):
        return "SReal(%s)" % self.t

    __hash__ = Proxy.__hash__


# ------------------------------------------------------------------ strings / bytes
def _sz(x, like=None):
    if isinstance(x, SStr):
        return x.t
    if isinstance(x, str):
        return z3.StringVal(x)
    if isinstance(x, (bytes, bytearray)):
        return z3.StringVal(bytes(x).decode("latin1"))
    return None


class SStr(Proxy):
    """str (is_bytes False) or bytes (is_bytes True; code points <= 0xFF, latin-1 view)."""
    __slots__ = ("t", "is_bytes", "narrow")

    def __init__(self, t, is_bytes=False, narrow=False):
        self.t = t
        self.is_bytes = is_bytes
        self.narrow = narrow or is_bytes      # narrow: every code point <= 0xFF (latin-1 text / bytes)

    def _mk(self, t):
        return SStr(z3.simplify(t), self.is_bytes, self.narrow)

    def _other(self, o):
        if isinstance(o, SStr):
            if o.is_bytes != self.is_bytes:
                raise TypeError("can't mix str and bytes")
            return o.t
        if isinstance(o, str) and not self.is_bytes:
            return z3.StringVal(o)
        if isinstance(o, (bytes, bytearray)) and self.is_bytes:
            return z3.StringVal(bytes(o).decode("latin1"))
        return None

    def __add__(self, o):
        z = self._other(o)
        if z is None:
            return NotImplemented
        return self._mk(z3.Concat(self.t, z))

    def __radd__(self, o):
        z = self._other(o)
        if z is None:
            return NotImplemented
        return self._mk(z3.Concat(z, self.t))

    def __eq__(self, o):
        if o is None:
            return False
        z = self._other(o) if isinstance(o, (SStr, str, bytes, bytearray)) else None
        if z is None:
            return False
        return SBool(z3.simplify(self.t == z))

    def __ne__(self, o):
        r = self.__eq__(o)
        if isinstance(r, bool):
            return not r
        return SBool(z3.Not(r.t))

    # ordering: Python compares str / bytes by code point / byte value, lexicographically - SMT-LIB's str.< / str.<=
    def _order(self, o, f):
        z = self._other(o) if isinstance(o, (SStr, str, bytes, bytearray)) else None
        if z is None:
            return NotImplemented
        return SBool(f(self.t, z))

    def __lt__(self, o): return self._order(o, lambda a, b: a < b)
    def __le__(self, o): return self._order(o, lambda a, b: a <= b)
    def __gt__(self, o): return self._order(o, lambda a, b: b < a)
    def __ge__(self, o): return self._order(o, lambda a, b: b <= a)

    def __bool__(self):
        return cx().branch(z3.Length(self.t) > 0)

    def length(self):
        return SInt(z3.Length(self.t))

    def __contains__(self, o):
        z = self._other(o)
        if z is None:
            if self.is_bytes and isinstance(o, (int, SInt)):
                z = z3.Unit(z3.CharFromBv(z3.Int2BV(_iz(o), 18))) if False else None
            if z is None:
                raise core.Unsupported("SStr.__contains__(%r)" % (o,))
        return cx().branch(z3.Contains(self.t, z))

    def contains(self, o):
        return SBool(z3.Contains(self.t, self._other(o)))

    def startswith(self, o, start=None):
        if isinstance(o, tuple):
            return SBool(z3.Or([z3.PrefixOf(self._other(x), self.t) for x in o]))
        if start is not None:
            return self[start:].startswith(o)
        return SBool(z3.PrefixOf(self._other(o), self.t))

    def endswith(self, o):
        if isinstance(o, tuple):
            return SBool(z3.Or([z3.SuffixOf(self._other(x), self.t) for x in o]))
        return SBool(z3.SuffixOf(self._other(o), self.t))

    def find(self, sub, start=0, end=None):
        if end is not None:
            raise core.Unsupported("SStr.find with end")
        st = _iz(start)
        return SInt(z3.IndexOf(self.t, self._other(sub), st))

    def count(self, sub, start=None, end=None):
        """number of non-overlapping occurrences in [start, end): an uninterpreted function of (text, sub, start, end), bounded by the window's length"""
        c = cx()
        n = z3.Length(self.t)
        lo = _iz(start) if start is not None else z3.IntVal(0)
        hi = _iz(end) if end is not None else n
        f = z3.Function("py_count", z3.StringSort(), z3.StringSort(), z3.IntSort(), z3.IntSort(), z3.IntSort())
        c.use_model("uninterpreted str.count (A-STDLIB): 0 <= count <= window length")
        r = f(self.t, self._other(sub), lo, hi)
        c.assume_z3(z3.And(r >= 0, z3.Implies(hi >= lo, r <= hi - lo), z3.Implies(hi < lo, r == 0)))
        return SInt(r)

    def index(self, sub, start=0):
        r = self.find(sub, start)
        if r < 0:
            raise ValueError("substring not found")
        return r

    def __getitem__(self, k):
        n = z3.Length(self.t)
        if isinstance(k, slice):
            if k.step is not None:
                raise core.Unsupported("slice step on SStr")
            lo = _norm_idx(k.start, n, 0)
            hi = _norm_idx(k.stop, n, n)
            ln = z3.If(hi > lo, hi - lo, 0)
            return self._mk(z3.SubString(self.t, lo, ln))
        i = _iz(k)
        if i is None:
            raise TypeError("bad index %r" % (k,))
        idx = z3.simplify(z3.If(i < 0, i + n, i))
        if not cx().branch(z3.And(idx >= 0, idx < n)):
            raise IndexError("string index out of range")
        if self.is_bytes:
            return SInt(z3.StrToCode(z3.SubString(self.t, idx, 1)))
        return self._mk(z3.SubString(self.t, idx, 1))

    def partition(self, sep):
        z = self._other(sep)
        i = z3.IndexOf(self.t, z, 0)
        n = z3.Length(self.t)
        if cx().branch(i >= 0):
            return (self._mk(z3.SubString(self.t, 0, i)), sep if not isinstance(sep, SStr) else sep,
                    self._mk(z3.SubString(self.t, i + z3.Length(z), n)))
        empty = b"" if self.is_bytes else ""
        # the tail stays a proxy: callers go on slicing it with symbolic indices (rest[:n]), which a real
        # bytes/str object would refuse
        return (self, empty, self._mk(z3.StringVal("")))

    def split(self, sep=None, maxsplit=-1):
        """only s.split(sep, 1): [s] without the separator, else [before the first occurrence, everything after it]"""
        if sep is None or maxsplit != 1:
            raise core.Unsupported("SStr.split(%r, %r)" % (sep, maxsplit))
        z = self._other(sep)
        i = z3.IndexOf(self.t, z, 0)
        if cx().branch(i >= 0):
            return [self._mk(z3.SubString(self.t, 0, i)), self._mk(z3.SubString(self.t, i + z3.Length(z), z3.Length(self.t)))]
        return [self]

    def _uf(self, name):
        f = z3.Function(name, z3.StringSort(), z3.StringSort())
        cx().use_model("uninterpreted str.%s (A-STDLIB)" % name)
        return f

    def lower(self):
        f = self._uf("py_lower")
        r = f(self.t)
        c = cx()
        if c is not None and getattr(c, "symbolic", False):
            c.assume_z3(z3.Length(r) == z3.Length(self.t))
            c.assume_z3(f(r) == r)
            if self.narrow:       # lower-casing latin-1 text stays within latin-1
                c.assume_z3(z3.InRe(r, z3.Star(z3.Range(chr(0), chr(255)))))
        return self._mk(r)

    def upper(self):
        f = self._uf("py_upper")
        r = f(self.t)
        cx().assume_z3(z3.Length(r) == z3.Length(self.t))
        return self._mk(r)

    def strip(self, chars=None):
        f = self._uf("py_strip" if chars is None else "py_strip_%s" % abs(hash(chars)))
        r = f(self.t)
        cx().assume_z3(z3.Contains(self.t, r))
        return self._mk(r)

    def lstrip(self, chars=None):
        f = self._uf("py_lstrip" if chars is None else "py_lstrip_%s" % abs(hash(chars)))
        r = f(self.t)
        cx().assume_z3(z3.SuffixOf(r, self.t))
        return self._mk(r)

    def rstrip(self, chars=None):
        f = self._uf("py_rstrip" if chars is None else "py_rstrip_%s" % abs(hash(chars)))
        r = f(self.t)
        cx().assume_z3(z3.PrefixOf(r, self.t))
        return self._mk(r)

    def removesuffix(self, suffix):
        z = self._other(suffix)
        n, k = z3.Length(self.t), z3.Length(z)
        return self._mk(z3.If(z3.And(k > 0, z3.SuffixOf(z, self.t)), z3.SubString(self.t, 0, n - k), self.t))

    def removeprefix(self, prefix):
        z = self._other(prefix)
        n, k = z3.Length(self.t), z3.Length(z)
        return self._mk(z3.If(z3.And(k > 0, z3.PrefixOf(z, self.t)), z3.SubString(self.t, k, n - k), self.t))

    def encode(self, enc="utf-8", errors="strict"):
        if self.is_bytes:
            raise AttributeError("encode")
        if enc.lower().replace("-", "") in ("latin1", "iso88591"):
            if not cx().branch(z3.InRe(self.t, z3.Star(z3.Range(chr(0), chr(255))))):
                raise UnicodeEncodeError("latin-1", "", 0, 1, "ordinal not in range(256)")
            return SStr(self.t, True)
        if enc.lower().replace("-", "").replace("_", "") in ("utf8", "ascii"):
            c = cx()
            c.use_model("str.encode(utf-8): identity on ASCII; otherwise some bytes in which NUL/CR/LF/':' occur exactly when they occur in the text (A-STDLIB)")
            if c.branch(z3.InRe(self.t, z3.Star(z3.Range(chr(0), chr(127))))):
                return SStr(self.t, True)
            if enc.lower() == "ascii":
                raise UnicodeEncodeError("ascii", "", 0, 1, "ordinal not in range(128)")
            e = c.bytes("utf8_encoded")
            for ch in ("\r", "\n", "\x00", ":", " "):
                c.assume_z3(z3.Contains(e.t, z3.StringVal(ch)) == z3.Contains(self.t, z3.StringVal(ch)))
            return e
        raise core.Unsupported("SStr.encode(%s)" % enc)

    def decode(self, enc="utf-8", errors="strict"):
        if not self.is_bytes:
            raise AttributeError("decode")
        e = enc.lower().replace("-", "").replace("_", "")
        if e in ("latin1", "iso88591"):
            return SStr(self.t, False, True)
        if e in ("utf8", "ascii"):
            # pure-ASCII bytes decode to the same text; anything else is outside the model (utf-8 validity / value)
            c = cx()
            c.use_model("bytes.decode(utf-8/ascii): identity on ASCII, UnicodeDecodeError-or-unmodelled otherwise (A-STDLIB)")
            if c.branch(z3.InRe(self.t, z3.Star(z3.Range(chr(0), chr(127))))):
                return SStr(self.t, False, True)
            if e == "ascii" or c.choose("utf-8 decoding of non-ASCII bytes", ["invalid", "valid"]) == "invalid":
                raise UnicodeDecodeError(e, b"", 0, 1, "invalid start byte")
            return c.str("utf8_decoded")       # some text (value outside the model: sound over-approximation)
        raise core.Unsupported("SStr.decode(%s)" % enc)

    def __mod__(self, o):
        raise core.Unsupported("%-formatting with a symbolic format string")

    def __repr__(self):
        return "SStr(%s%s)" % ("b:" if self.is_bytes else "", self.t)

    __hash__ = Proxy.__hash__


def _norm_idx(v, n, default):
    """Python slice index normalisation with clamping."""
    if v is None:
        return default if not isinstance(default, int) else z3.IntVal(default)
    i = _iz(v)
    if i is None:
        raise TypeError("bad slice index %r" % (v,))
    i = z3.If(i < 0, i + n, i)
    return z3.simplify(z3.If(i < 0, 0, z3.If(i > n, n, i)))


# ------------------------------------------------------------------ sequences as array slices
class SSeq(Proxy):
    """list / deque of unknown length: (Array Int T, lo, hi).  wrap/unwrap convert between the
    element sort's z3 terms and the Python-level element proxies."""
    __slots__ = ("arr", "lo", "hi", "wrap", "unwrap", "kind")

    def __init__(self, arr, lo, hi, wrap, unwrap, kind="deque"):
        self.arr, self.lo, self.hi, self.wrap, self.unwrap, self.kind = arr, lo, hi, wrap, unwrap, kind

    def clone(self):
        return SSeq(self.arr, self.lo, self.hi, self.wrap, self.unwrap, self.kind)

    def length(self):
        return SInt(z3.simplify(self.hi - self.lo))

    def __bool__(self):
        return cx().branch(self.hi > self.lo)

    def append(self, x):
        self.arr = z3.Store(self.arr, self.hi, self.unwrap(x))
        self.hi = z3.simplify(self.hi + 1)

    def appendleft(self, x):
        self.lo = z3.simplify(self.lo - 1)
        self.arr = z3.Store(self.arr, self.lo, self.unwrap(x))

    def popleft(self):
        if not cx().branch(self.hi > self.lo):
            raise IndexError("pop from an empty deque")
        v = self.wrap(z3.simplify(z3.Select(self.arr, self.lo)))
        self.lo = z3.simplify(self.lo + 1)
        return v

    def pop(self, i=-1):
        if i != -1:
            if i == 0:
                return self.popleft()
            raise core.Unsupported("SSeq.pop(%r)" % (i,))
        if not cx().branch(self.hi > self.lo):
            raise IndexError("pop from empty list")
        self.hi = z3.simplify(self.hi - 1)
        return self.wrap(z3.simplify(z3.Select(self.arr, self.hi)))

    def clear(self):
        self.hi = self.lo

    def at(self, i):
        """spec-level element access without bounds fork; i is an offset from lo."""
        return self.wrap(z3.Select(self.arr, self.lo + _iz(i)))

    def __getitem__(self, k):
        if isinstance(k, slice):
            raise core.Unsupported("slice of SSeq")
        i = _iz(k)
        n = self.hi - self.lo
        idx = z3.simplify(z3.If(i < 0, i + n, i))
        if not cx().branch(z3.And(idx >= 0, idx < n)):
            raise IndexError("sequence index out of range")
        return self.wrap(z3.simplify(z3.Select(self.arr, self.lo + idx)))

    def __repr__(self):
        return "SSeq(%s,[%s,%s))" % (self.arr, self.lo, self.hi)

    __hash__ = Proxy.__hash__


# ------------------------------------------------------------------ dict with symbolic keys
class SDict(Proxy):
    """dict with symbolic keys: has : Array K Bool, val : Array K V, and a precise size kept by an
    enumeration of the key set (enum : [0,size) -> K, idx : K -> position; removal swaps with the
    last).  wf() is the representation invariant of this *model* of dict (len == number of keys); it is
    maintained constructively by the operations and assumed after a havoc."""
    __slots__ = ("has", "val", "size", "kun", "vwrap", "vun", "enum", "idx")

    def __init__(self, has, val, size, kun, vwrap, vun, enum=None, idx=None):
        self.has, self.val, self.size, self.kun, self.vwrap, self.vun = has, val, size, kun, vwrap, vun
        ks = has.sort().domain()
        self.enum = enum if enum is not None else z3.K(z3.IntSort(), z3.IntVal(0) if ks == z3.IntSort() else z3.StringVal(""))
        self.idx = idx if idx is not None else z3.K(ks, z3.IntVal(0))

    def wf(self):
        ks = self.has.sort().domain()
        j = z3.Int("dj")
        k = z3.Const("dk", ks)
        return z3.And(self.size >= 0,
                      z3.ForAll([j], z3.Implies(z3.And(0 <= j, j < self.size),
                                                z3.And(z3.Select(self.has, z3.Select(self.enum, j)),
                                                       z3.Select(self.idx, z3.Select(self.enum, j)) == j)),
                                patterns=[z3.Select(self.enum, j)]),
                      z3.ForAll([k], z3.Implies(z3.Select(self.has, k),
                                                z3.And(0 <= z3.Select(self.idx, k), z3.Select(self.idx, k) < self.size,
                                                       z3.Select(self.enum, z3.Select(self.idx, k)) == k)),
                                patterns=[z3.Select(self.has, k)]))

    def __contains__(self, k):
        return cx().branch(z3.Select(self.has, self.kun(k)))

    def contains(self, k):
        return SBool(z3.Select(self.has, self.kun(k)))

    def __getitem__(self, k):
        kz = self.kun(k)
        if not cx().branch(z3.Select(self.has, kz)):
            raise KeyError(k)
        return self.vwrap(z3.simplify(z3.Select(self.val, kz)))

    def get(self, k, default=None):
        kz = self.kun(k)
        if not cx().branch(z3.Select(self.has, kz)):
            return default
        return self.vwrap(z3.simplify(z3.Select(self.val, kz)))

    def lookup(self, k):
        return self.vwrap(z3.Select(self.val, self.kun(k)))

    def __setitem__(self, k, v):
        kz = self.kun(k)
        if not cx().branch(z3.Select(self.has, kz)):      # new key (forks only if both are feasible)
            self.enum = z3.Store(self.enum, self.size, kz)
            self.idx = z3.Store(self.idx, kz, self.size)
            self.size = z3.simplify(self.size + 1)
        self.has = z3.Store(self.has, kz, z3.BoolVal(True))
        self.val = z3.Store(self.val, kz, self.vun(v))

    def _remove(self, kz):
        last = z3.Select(self.enum, self.size - 1)
        j = z3.Select(self.idx, kz)
        self.enum = z3.Store(self.enum, j, last)
        self.idx = z3.Store(self.idx, last, j)
        self.has = z3.Store(self.has, kz, z3.BoolVal(False))
        self.size = z3.simplify(self.size - 1)

    def __delitem__(self, k):
        kz = self.kun(k)
        if not cx().branch(z3.Select(self.has, kz)):
            raise KeyError(k)
        self._remove(kz)

    _MISSING = object()

    def pop(self, k, default=_MISSING):
        kz = self.kun(k)
        if not cx().branch(z3.Select(self.has, kz)):
            if default is SDict._MISSING:
                raise KeyError(k)
            return default
        v = self.vwrap(z3.simplify(z3.Select(self.val, kz)))
        self._remove(kz)
        return v

    def length(self):
        return SInt(self.size)

    def __bool__(self):
        return cx().branch(self.size > 0)

    __hash__ = Proxy.__hash__


# ------------------------------------------------------------------ polymorphic spec helpers
def And(*xs):
    xs = [x for x in xs]
    if all(isinstance(x, bool) for x in xs):
        return all(xs)
    return SBool(z3.And([core._b(x) for x in xs]))


def Or(*xs):
    if all(isinstance(x, bool) for x in xs):
        return any(xs)
    return SBool(z3.Or([core._b(x) for x in xs]))


def Not(x):
    if isinstance(x, bool):
        return not x
    return SBool(z3.Not(core._b(x)))


def Implies(a, b):
    if isinstance(a, bool) and isinstance(b, bool):
        return (not a) or b
    if isinstance(a, bool):
        return b if a else True
    return SBool(z3.Implies(core._b(a), core._b(b)))


def Iff(a, b):
    if isinstance(a, bool) and isinstance(b, bool):
        return a == b
    return SBool(core._b(a) == core._b(b))


def Ite(c, a, b):
    if isinstance(c, bool):
        return a if c else b
    za, zb = _iz(a), _iz(b)
    if za is not None and zb is not None:
        return SInt(z3.If(core._b(c), za, zb))
    raise core.Unsupported("Ite on non-int branches")


def Len(x):
    if isinstance(x, (SStr, SSeq, SDict)):
        return x.length()
    if hasattr(x, "__pyvc_len__"):
        return x.__pyvc_len__()
    return len(x)


def ForAll(lo, hi, pred, pat=None):
    """forall i in [lo, hi): pred(i).  Concrete bounds -> conjunction; else SMT quantifier."""
    if isinstance(lo, int) and isinstance(hi, int):
        rs = [pred(i) for i in range(lo, hi)]
        return And(*rs) if rs else True
    i = z3.Int("i!%d" % next(_qid))
    body = core._b(pred(SInt(i)))
    rng = z3.And(_iz(lo) <= i, i < _iz(hi))
    if pat is not None:
        p = pat(SInt(i))
        p = p.t if isinstance(p, Proxy) else p
        return SBool(z3.ForAll([i], z3.Implies(rng, body), patterns=[p]))
    return SBool(z3.ForAll([i], z3.Implies(rng, body)))


import itertools as _it
_qid = _it.count()
