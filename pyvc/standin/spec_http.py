"""Strict HTTP/1.1 response reader (RFC 9112 §6.3) written from the RFC, used as oracle."""
import re

TOKEN = re.compile(rb"[!#$%&'*+\-.^_`|~0-9A-Za-z]+")
STATUS = re.compile(rb"HTTP/1\.[01] ([0-9]{3}) ([\t \x21-\x7e\x80-\xff]*)")


class Reject(Exception):
    pass


def read_responses(data, request_methods, connection_closed):
    """-> list of dicts(status, reason, headers=[(name,value)], body, delimited_by); raises Reject when the
    byte stream is not a sequence of well-framed responses."""
    out, pos, k = [], 0, 0
    while pos < len(data):
        end = data.find(b"\r\n\r\n", pos)
        if end < 0:
            raise Reject("incomplete header block at offset %d" % pos)
        lines = data[pos:end].split(b"\r\n")
        m = STATUS.fullmatch(lines[0])
        if not m:
            raise Reject("malformed status line %r" % lines[0][:60])
        code = int(m.group(1))
        headers = []
        for ln in lines[1:]:
            if b"\r" in ln or b"\n" in ln or b"\x00" in ln:
                raise Reject("control character in header line %r" % ln[:60])
            name, sep, value = ln.partition(b":")
            if not sep or not TOKEN.fullmatch(name):
                raise Reject("malformed header line %r" % ln[:60])
            headers.append((name.decode("latin1"), value.strip(b" \t").decode("latin1")))
        pos = end + 4
        method = request_methods[min(k, len(request_methods) - 1)] if request_methods else "GET"
        cls = [v for n, v in headers if n.lower() == "content-length"]
        tes = [v for n, v in headers if n.lower() == "transfer-encoding"]
        if len(set(cls)) > 1:
            raise Reject("conflicting Content-Length")
        if cls and not re.fullmatch(r"[0-9]+", cls[0]):
            raise Reject("non-numeric Content-Length %r" % cls[0])
        if cls and tes:
            raise Reject("both Content-Length and Transfer-Encoding")
        if method == "HEAD" or code in (204, 304) or 100 <= code < 200:
            body, how = b"", "no-body"
        elif tes:
            if tes != ["chunked"]:
                raise Reject("unsupported transfer coding %r" % tes)
            body = b""
            while True:
                eol = data.find(b"\r\n", pos)
                if eol < 0:
                    raise Reject("truncated chunk size")
                sz = data[pos:eol]
                if not re.fullmatch(rb"[0-9a-fA-F]+", sz):
                    raise Reject("malformed chunk size %r" % sz[:20])
                n = int(sz, 16)
                pos = eol + 2
                if n == 0:
                    if data[pos:pos + 2] != b"\r\n":
                        raise Reject("missing CRLF after last chunk")
                    pos += 2
                    break
                if data[pos + n:pos + n + 2] != b"\r\n" or pos + n + 2 > len(data):
                    raise Reject("chunk data not followed by CRLF")
                body += data[pos:pos + n]
                pos += n + 2
            how = "chunked"
        elif cls:
            n = int(cls[0])
            if pos + n > len(data):
                raise Reject("body shorter than Content-Length")
            body, how = data[pos:pos + n], "content-length"
            pos += n
        else:
            if not connection_closed:
                raise Reject("body delimited by nothing while the connection stays open")
            body, how = data[pos:], "close"
            pos = len(data)
        out.append({"status": code, "reason": m.group(2).decode("latin1"), "headers": headers, "body": body, "delimited_by": how})
        k += 1
    return out
