"""Bounded history exploration: exhaustive up to a small depth, seeded random beyond."""
import itertools
import random
import time


def explore(alphabet, run, exhaustive_depth, random_len, budget_s, seed, max_exh=200000):
    """alphabet: list of op tokens; run(seq) -> (failure_or_None, nontrivial: bool, signature).
    Returns the standard stand-in dict."""
    t0 = time.time()
    evals = 0
    sigs = set()
    failures = []
    samples = []
    exhaustive_done = True

    def one(seq):
        nonlocal evals
        evals += 1
        try:
            fail, nontriv, sig = run(seq)
        except Exception as e:  # harness crash is not a violation
            fail, nontriv, sig = None, False, None
            if len(samples) < 8:
                samples.append({"seq": list(map(str, seq)), "harness_error": "%s: %s" % (type(e).__name__, e)})
        if nontriv and sig is not None:
            sigs.add(sig)
        if fail and len(failures) < 5:
            failures.append({"what": fail, "history": list(map(str, seq))})
        if len(samples) < 3 and nontriv:
            samples.append({"history": list(map(str, seq)), "verdict": "ok" if not fail else fail})

    n = 0
    for d in range(1, exhaustive_depth + 1):
        for seq in itertools.product(alphabet, repeat=d):
            n += 1
            if n > max_exh or time.time() - t0 > budget_s * 0.6:
                exhaustive_done = False
                break
            one(seq)
            if failures:
                break
        if failures or not exhaustive_done:
            break
    rng = random.Random(seed)
    while not failures and time.time() - t0 < budget_s:
        L = rng.randint(exhaustive_depth + 1, random_len)
        one(tuple(rng.choice(alphabet) for _ in range(L)))
    return {"evaluations": evals, "distinct_nontrivial": len(sigs), "failures": failures, "samples": samples,
            "exhaustive_to_depth": exhaustive_depth if exhaustive_done else None,
            "wall_s": round(time.time() - t0, 2)}
