"""HTTP client harness for C08 / C09: the real SimpleAsyncHTTPClient + _HTTPConnection + HTTP1Connection over scripted in-memory connections
(FakeTransportStream) with a virtual clock.  A `FakeTCP` stands for TCPClient: every connect() is recorded and answered from a script."""
import asyncio
import logging

from .fakestream import FakeTransportStream, EOF
from . import vloop


class Conn:
    """one scripted connection: what connect() does and what the server side sends"""
    def __init__(self, connect="ok", pieces=(), eof=True, delay=0.0, respond_after=0.0):
        self.connect, self.pieces, self.eof, self.delay, self.respond_after = connect, list(pieces), eof, delay, respond_after
        self.stream = None
        self.args = None
        self.request_bytes = b""
        self.connected_at = None
        self.done_feeding = False


class FakeTCP:
    def __init__(self, v, script, log):
        self.v, self.script, self.log = v, list(script), log
        self.conns = []

    async def connect(self, host, port, af=None, ssl_options=None, max_buffer_size=None, source_ip=None, source_port=None, timeout=None):
        conn = self.script.pop(0) if self.script else Conn()
        conn.args = dict(host=host, port=port, ssl=ssl_options is not None)
        self.conns.append(conn)
        self.log.append(("connect", host, port, len(self.conns) - 1))
        # a connection attempt that takes (virtual) time: wait on a future the driver resolves
        if conn.delay:
            fut = asyncio.get_event_loop().create_future()
            conn._ready = (self.v.now + conn.delay, fut)
            await fut
        if conn.connect == "refused":
            raise ConnectionRefusedError(111, "refused")
        if conn.connect == "never":
            await asyncio.get_event_loop().create_future()
        conn.stream = FakeTransportStream(max_buffer_size=max_buffer_size)
        conn.connected_at = self.v.now
        return conn.stream

    def close(self):
        pass


def run_fetches(requests, script, client_kwargs=None, schedule=None, max_virtual=60.0, step=0.25):
    """requests: list of dict(url=..., **HTTPRequest kwargs) (or (delay, dict) to submit later); script: list of Conn in connect order.
    Returns dict(results=[per request: ('response', code, headers, body, effective_url) | ('error', type name, message)], log=[events], conns=[Conn...], completions=[count per request],
                 max_active=..., streamed=[chunks per request])"""
    import tornado.httpclient as HC
    import tornado.simple_httpclient as SC
    log = []
    gl = [logging.getLogger(n) for n in ("tornado.application", "tornado.general", "tornado.access")]
    saved = [(l.level, l.propagate, list(l.handlers)) for l in gl]
    errors_logged = []

    class Catch(logging.Handler):
        def emit(self, record):
            if record.levelno >= logging.ERROR:
                errors_logged.append((record.name, record.getMessage()[:200]))
    for l in gl:
        l.propagate = False
        l.handlers = [Catch()]

    async def main(v):
        tcp = FakeTCP(v, script, log)
        client = SC.SimpleAsyncHTTPClient(force_instance=True, **(client_kwargs or {}))
        client.tcp_client = tcp
        results = [None] * len(requests)
        completions = [0] * len(requests)
        streamed = [[] for _ in requests]
        max_active = [0]
        pending = []
        subs = []
        for i, r in enumerate(requests):
            at, kw = (r if isinstance(r, tuple) else (0.0, r))
            subs.append((at, i, dict(kw)))
        subs.sort(key=lambda x: (x[0], x[1]))

        def submit(i, kw):
            kw = dict(kw)
            if kw.pop("_stream", False):
                kw["streaming_callback"] = streamed[i].append
            url = kw.pop("url")
            try:
                fut = client.fetch(HC.HTTPRequest(url, **kw), raise_error=False)
            except Exception as e:   # noqa: B902
                results[i] = ("raised-at-submit", type(e).__name__, str(e)[:100])
                completions[i] += 1
                return

            def done(f, i=i):
                completions[i] += 1
                log.append(("completed", i, v.now))
                if f.exception() is not None:
                    results[i] = ("error", type(f.exception()).__name__, str(f.exception())[:100])
                    return
                resp = f.result()
                if resp.error is not None and not isinstance(resp.error, HC.HTTPError) or (resp.code == 599):
                    results[i] = ("error", type(resp.error).__name__, str(resp.error)[:100])
                else:
                    results[i] = ("response", resp.code, list(resp.headers.get_all()), resp.body if resp.buffer is not None else None, resp.effective_url, resp.reason)
            fut.add_done_callback(done)
            log.append(("submitted", i, v.now))
        t_end = v.now + max_virtual
        t0 = v.now
        while v.now <= t_end:
            while subs and subs[0][0] <= v.now - t0 + 1e-9:
                _, i, kw = subs.pop(0)
                submit(i, kw)
            await v.tick(6)
            max_active[0] = max(max_active[0], len(client.active))
            # serve connections
            progressed = False
            for conn in tcp.conns:
                rdy = getattr(conn, "_ready", None)
                if rdy is not None and v.now >= rdy[0] - 1e-9 and not rdy[1].done():
                    rdy[1].set_result(None)
                    conn._ready = None
                    progressed = True
                s = conn.stream
                if s is None or conn.done_feeding:
                    continue
                s.pump()
                conn.request_bytes = bytes(s.sent)
                if b"\r\n\r\n" not in conn.request_bytes and not s.closed():
                    continue
                if conn.respond_after and v.now < conn.connected_at + conn.respond_after - 1e-9:
                    continue
                if conn.pieces:
                    piece = conn.pieces.pop(0)
                    if not s.closed():
                        s.feed(piece)
                        s.pump()
                    progressed = True
                elif conn.eof:
                    if not s.closed():
                        s.feed(EOF)
                        s.pump()
                    conn.done_feeding = True
                    progressed = True
                else:
                    conn.done_feeding = True
            await v.tick(6)
            max_active[0] = max(max_active[0], len(client.active))
            if all(c > 0 for c in completions) and not subs:
                break
            if not progressed:
                v.advance(step)
        await v.settle()
        for conn in tcp.conns:
            if conn.stream is not None:
                conn.request_bytes = bytes(conn.stream.sent)
        client.close()
        return dict(results=results, log=log, conns=tcp.conns, completions=completions, max_active=max_active[0], streamed=streamed, errors_logged=errors_logged,
                    leftover=(len(client.active), len(client.queue), len(client.waiting)))
    try:
        return vloop.run_history(main)
    finally:
        for l, (lvl, prop, hs) in zip(gl, saved):
            l.setLevel(lvl)
            l.propagate = prop
            l.handlers = hs
