"""Handler-level harness: run a request through a real tornado.web.Application with a recording
connection object (no sockets).  The handler, routing, transforms, header handling are the real code."""
import asyncio

from tornado import httputil


class FakeConn(httputil.HTTPConnection):
    def __init__(self, loop):
        self.loop = loop
        self.start_line = None
        self.headers = None
        self.chunks = []
        self.finished = False
        self.header_writes = 0
        self.close_cb = None
        self.stream = None
        self.no_keep_alive = False
        self.errors = []

    def write_headers(self, start_line, headers, chunk=None):
        self.header_writes += 1
        self.start_line = start_line
        self.headers = [(k, v) for k, v in headers.get_all()]
        if chunk:
            self.chunks.append(bytes(chunk))
        f = self.loop.create_future()
        f.set_result(None)
        return f

    def write(self, chunk):
        if self.finished:
            self.errors.append("write after finish")
        self.chunks.append(bytes(chunk))
        f = self.loop.create_future()
        f.set_result(None)
        return f

    def finish(self):
        if self.finished:
            self.errors.append("finish twice")
        self.finished = True

    def set_close_callback(self, cb):
        self.close_cb = cb


class Response:
    def __init__(self, conn, exc=None):
        self.status = conn.start_line.code if conn.start_line else None
        self.reason = conn.start_line.reason if conn.start_line else None
        self.headers = conn.headers or []
        self.body = b"".join(conn.chunks)
        self.finished = conn.finished
        self.header_writes = conn.header_writes
        self.errors = conn.errors
        self.exc = exc

    def get(self, name, default=None):
        vs = [v for k, v in self.headers if k.lower() == name.lower()]
        return vs[0] if vs else default

    def get_all(self, name):
        return [v for k, v in self.headers if k.lower() == name.lower()]

    def __repr__(self):
        return "Response(%r, %r, body=%d bytes)" % (self.status, self.headers, len(self.body))


def run_request(app, method="GET", uri="/", headers=None, body=b"", version="HTTP/1.1", host="example.com", remote_ip="127.0.0.1", steps=200):
    """Dispatch one request through app (real routing + handler) and return the recorded Response."""
    loop = asyncio.new_event_loop()
    asyncio.set_event_loop(loop)
    try:
        async def main():
            conn = FakeConn(loop)
            h = httputil.HTTPHeaders()
            h.add("Host", host)
            for k, v in (headers or []):
                h.add(k, v)
            conn.context = type("Ctx", (), {"remote_ip": remote_ip, "protocol": "http", "address": (remote_ip, 1234)})()
            req = httputil.HTTPServerRequest(method=method, uri=uri, version=version, headers=h, body=body, host=host,
                                             connection=conn, start_line=httputil.RequestStartLine(method, uri, version))
            req.remote_ip = remote_ip
            req.protocol = "http"
            req._parse_body()
            d = app.find_handler(req)
            exc = None
            try:
                fut = d.execute()
                if fut is not None:
                    await asyncio.wait_for(asyncio.shield(fut), 5)
            except Exception as e:       # handler-level failure that escaped _execute
                exc = e
            for _ in range(steps):
                if conn.finished:
                    break
                await asyncio.sleep(0)
            return Response(conn, exc)
        return loop.run_until_complete(main())
    finally:
        try:
            loop.run_until_complete(asyncio.sleep(0))
        finally:
            loop.close()
            asyncio.set_event_loop(None)
