"""FakeTransportStream (DESIGN App. C.1): a BaseIOStream subclass implementing only the five abstract
hooks over an in-memory script; handler registration is recorded instead of reaching a selector.
Everything else (read_*, write, close, buffers, _signal_closed) is the real BaseIOStream code of /repo."""
import errno

from tornado import ioloop
from tornado.iostream import BaseIOStream

WOULD_BLOCK, EOF = "would_block", "eof"


class _LoopProxy:
    """The stream's io_loop: real loop for callbacks/timers, recorded interest for fd handlers."""
    READ, WRITE, ERROR = ioloop.IOLoop.READ, ioloop.IOLoop.WRITE, ioloop.IOLoop.ERROR

    def __init__(self, real, owner):
        self._real, self._owner = real, owner

    def add_handler(self, fd, handler, events):
        self._owner.interest, self._owner.handler = events, handler

    def update_handler(self, fd, events):
        self._owner.interest = events

    def remove_handler(self, fd):
        self._owner.interest, self._owner.handler = None, None

    def __getattr__(self, n):
        return getattr(self._real, n)


class FakeTransportStream(BaseIOStream):
    def __init__(self, incoming=(), accepts=(), **kw):
        self.interest, self.handler = None, None
        self.incoming = list(incoming)      # bytes | WOULD_BLOCK | EOF | OSError instance
        self.accepts = list(accepts)        # int (accept up to k) | WOULD_BLOCK | OSError instance; empty => accept all
        self.delivered = bytearray()        # bytes handed to the stream by read_from_fd
        self.sent = bytearray()             # bytes accepted by write_to_fd
        self.fd_closed = 0
        self.socket = self                  # some callers look at .socket
        super().__init__(**kw)
        self.io_loop = _LoopProxy(self.io_loop, self)

    # ---- the five hooks
    def fileno(self):
        return 4242

    def close_fd(self):
        self.fd_closed += 1

    def get_fd_error(self):
        return None

    def read_from_fd(self, buf):
        if not self.incoming:
            return None
        item = self.incoming[0]
        if item == WOULD_BLOCK:
            self.incoming.pop(0)
            return None
        if item == EOF:
            return 0            # sticky
        if isinstance(item, BaseException):
            self.incoming.pop(0)
            raise item
        n = min(len(buf), len(item))
        buf[:n] = item[:n]
        self.delivered += item[:n]
        if n == len(item):
            self.incoming.pop(0)
        else:
            self.incoming[0] = item[n:]
        return n

    def write_to_fd(self, data):
        try:
            if not self.accepts:
                k = len(data)
            else:
                item = self.accepts.pop(0)
                if item == WOULD_BLOCK:
                    raise BlockingIOError(errno.EWOULDBLOCK, "would block")
                if isinstance(item, BaseException):
                    raise item
                k = min(item, len(data))
            self.sent += bytes(data[:k])
            return k
        finally:
            del data

    # socket-ish helpers used by HTTP code
    def setsockopt(self, *a):
        pass

    def getpeername(self):
        return ("127.0.0.1", 50000)

    family = 2

    # ---- driver side
    def feed(self, *items):
        self.incoming.extend(items)

    def fire(self, events=None):
        """Deliver an fd event the way the IOLoop would (only what the stream asked for)."""
        if self.handler is None or self.interest is None:
            return False
        ev = self.interest if events is None else (events & (self.interest | ioloop.IOLoop.ERROR))
        if not ev:
            return False
        self.handler(self.fileno(), ev)
        return True

    def pump(self, max_rounds=50):
        """fire READ/WRITE events while the stream wants them and the script has something to offer."""
        for _ in range(max_rounds):
            if self.closed() or self.handler is None:
                return
            want_r = self.interest & ioloop.IOLoop.READ and self.incoming
            want_w = self.interest & ioloop.IOLoop.WRITE and self._write_buffer
            if not (want_r or want_w):
                return
            self.fire((ioloop.IOLoop.READ if want_r else 0) | (ioloop.IOLoop.WRITE if want_w else 0))
