"""Server-side end-to-end harness: the real tornado.httpserver.HTTPServer / HTTP1ServerConnection /
HTTP1Connection / (optionally) web.Application on a FakeTransportStream, byte streams delivered in
arbitrary segmentations, on a virtual-time loop.  Observed: requests delivered to the application, bytes
written, connection state, ERROR log records."""
import asyncio
import logging

from tornado import httpserver, httputil

from .fakestream import FakeTransportStream, EOF
from . import vloop


class LogCatcher(logging.Handler):
    def __init__(self):
        super().__init__(level=logging.DEBUG)
        self.records = []

    def emit(self, record):
        self.records.append((record.name, record.levelname, record.getMessage()[:200]))


class Result:
    def __init__(self):
        self.requests, self.sent, self.closed, self.logs, self.events = [], b"", False, [], []

    def errors_logged(self):
        return [r for r in self.logs if r[1] in ("ERROR", "CRITICAL")]


def default_callback(result, body=b"ok", extra_headers=()):
    def cb(request):
        result.requests.append((request.method, request.uri, request.version, list(request.headers.get_all()), request.body))
        h = httputil.HTTPHeaders()
        h.add("Content-Length", str(len(body)))
        for k, v in extra_headers:
            h.add(k, v)
        request.connection.write_headers(httputil.ResponseStartLine("HTTP/1.1", 200, "OK"), h, body)
        request.connection.finish()
    return cb


def run_server(segments, make_app=None, server_kwargs=None, eof=True, ticks_between=2, address=("10.1.2.3", 4321), after=None, accepts=()):
    """segments: list of bytes pieces (delivered one per readiness event).  Returns Result."""
    res = Result()
    catcher = LogCatcher()
    loggers = [logging.getLogger(n) for n in ("tornado.application", "tornado.general", "tornado.access")]
    saved = [(l.level, l.propagate, list(l.handlers)) for l in loggers]
    for l in loggers:
        l.setLevel(logging.DEBUG)
        l.propagate = False
        l.handlers = [catcher]

    async def main(v):
        app = make_app(res) if make_app else default_callback(res)
        server = httpserver.HTTPServer(app, **(server_kwargs or {}))
        stream = FakeTransportStream(accepts=list(accepts))
        res.stream = stream
        server.handle_stream(stream, address)
        await v.tick(ticks_between)
        for seg in segments:
            if stream.closed():
                break
            stream.feed(seg)
            stream.pump()
            await v.tick(ticks_between)
            stream.pump()
        await v.settle()
        if after is not None:
            await after(v, stream, server, res)
        if eof and not stream.closed():
            stream.feed(EOF)
            stream.pump()
            await v.settle()
        res.sent = bytes(stream.sent)
        res.closed = stream.closed()
        res.server = server
        res.open_connections = len(server._connections)
        return res
    try:
        return vloop.run_history(main)
    finally:
        res.logs = catcher.records
        for l, (lvl, prop, hs) in zip(loggers, saved):
            l.setLevel(lvl)
            l.propagate = prop
            l.handlers = hs


def segmentations(data, rng=None, max_exhaustive=40, n_random=6):
    """every 1-cut and 2-cut segmentation for short streams (plus byte-at-a-time and all-at-once);
    seeded random cuts for longer ones."""
    n = len(data)
    yield [data]
    if n <= 1:
        return
    yield [data[i:i + 1] for i in range(n)]
    if n <= max_exhaustive:
        for i in range(1, n):
            yield [data[:i], data[i:]]
        for i in range(1, n):
            for j in range(i + 1, n):
                yield [data[:i], data[i:j], data[j:]]
    else:
        import random
        rng = rng or random.Random(0)
        for _ in range(n_random):
            k = rng.randint(1, 4)
            cuts = sorted(rng.sample(range(1, n), min(k, n - 1)))
            yield [data[a:b] for a, b in zip([0] + cuts, cuts + [n])]
        # cuts around interesting boundaries: every CR/LF position
        marks = [i for i in range(1, n) if data[i - 1:i] in (b"\r", b"\n")][:10]
        for m in marks:
            yield [data[:m], data[m:]]


def split_responses(sent):
    """parse the bytes the server wrote into (status, headers, body) using Content-Length / no-body rules
    (the harness's own responses always carry Content-Length)."""
    out, rest = [], sent
    while rest:
        head, sep, tail = rest.partition(b"\r\n\r\n")
        if not sep:
            out.append(("incomplete", rest))
            break
        lines = head.split(b"\r\n")
        status = lines[0]
        hdrs = [tuple(x.strip() for x in l.split(b":", 1)) for l in lines[1:] if b":" in l]
        cl = [v for k, v in hdrs if k.lower() == b"content-length"]
        n = int(cl[0]) if cl else 0
        out.append((status, hdrs, tail[:n]))
        rest = tail[n:]
    return out


class RecordingDelegate(httputil.HTTPServerConnectionDelegate):
    """Server delegate that records the per-message delegate protocol (C04/C05): events list of
    (msg_no, 'headers'|'data'|'finish'|'close', payload).  respond: when to answer
    ('finish' = after the whole body, 'headers' = as soon as headers arrive, None = never)."""
    def __init__(self, result, respond="finish", response_body=b"ok", set_max_body=None, stall_data=False):
        self.result, self.respond, self.response_body, self.set_max_body = result, respond, response_body, set_max_body
        self.stall_data = stall_data        # data_received returns an awaitable that never completes (a consumer that has stopped taking data)
        self.n = 0
        result.events = []
        result.closed_conns = 0

    def start_request(self, server_conn, request_conn):
        self.n += 1
        return _Msg(self, self.n, request_conn)

    def on_close(self, server_conn):
        self.result.closed_conns += 1


class _Msg(httputil.HTTPMessageDelegate):
    def __init__(self, owner, no, conn):
        self.o, self.no, self.conn = owner, no, conn

    def _respond(self):
        h = httputil.HTTPHeaders()
        h.add("Content-Length", str(len(self.o.response_body)))
        self.conn.write_headers(httputil.ResponseStartLine("HTTP/1.1", 200, "OK"), h, self.o.response_body)
        self.conn.finish()

    def headers_received(self, start_line, headers):
        self.o.result.events.append((self.no, "headers", (start_line.method, start_line.path, list(headers.get_all()))))
        if self.o.set_max_body is not None:
            self.conn.set_max_body_size(self.o.set_max_body)
        if self.o.respond == "headers":
            self._respond()

    def data_received(self, chunk):
        self.o.result.events.append((self.no, "data", bytes(chunk)))
        if self.o.stall_data:
            import asyncio
            return asyncio.get_event_loop().create_future()

    def finish(self):
        self.o.result.events.append((self.no, "finish", None))
        if self.o.respond == "finish":
            self._respond()

    def on_connection_close(self):
        self.o.result.events.append((self.no, "close", None))
