"""Virtual-time event loop double for the bounded run-time stand-in (DESIGN App. C.2).

A real asyncio event loop whose clock is a counter; tornado's IOLoop.time is patched to the same
counter so add_timeout deadlines and asyncio delays agree.  The driver coroutine controls
interleavings at the granularity of one loop iteration (`tick`)."""
import asyncio
import contextlib


class VLoop:
    def __init__(self, start=1000.0):
        self.now = start
        self.loop = None

    @contextlib.contextmanager
    def installed(self):
        import tornado.ioloop as IL
        self.loop = asyncio.new_event_loop()
        self.loop.time = lambda: self.now
        old_time = IL.IOLoop.time
        IL.IOLoop.time = lambda self_: self.now
        asyncio.set_event_loop(self.loop)
        try:
            yield self
        finally:
            IL.IOLoop.time = old_time
            try:
                pending = [t for t in asyncio.all_tasks(self.loop) if not t.done()]
                for t in pending:
                    t.cancel()
                if pending:
                    self.loop.run_until_complete(asyncio.gather(*pending, return_exceptions=True))
            except Exception:
                pass
            try:
                IL.IOLoop.clear_current()
            except Exception:
                pass
            self.loop.close()
            asyncio.set_event_loop(None)

    def run(self, coro):
        return self.loop.run_until_complete(coro)

    async def tick(self, n=1):
        for _ in range(n):
            await asyncio.sleep(0)

    async def settle(self):
        await self.tick(6)

    def advance(self, dt):
        self.now += dt


def run_history(steps_coro_factory):
    """Run `await factory(vloop)` on a fresh virtual loop; returns its result."""
    v = VLoop()
    with v.installed():
        return v.run(steps_coro_factory(v))
