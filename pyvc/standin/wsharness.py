"""WebSocket harness for C14-C17 (DESIGN §6.3): a real WebSocketProtocol13 over the in-memory FakeTransportStream, a recording delegate,
and an independent RFC 6455 / RFC 7692 frame codec written from the RFCs (used as the peer and as the oracle)."""
import asyncio
import os
import struct
import zlib

from .fakestream import FakeTransportStream, EOF


# ------------------------------------------------------------------ reference codec (RFC 6455 section 5.2)
def ref_mask(mask, data):
    return bytes(b ^ mask[i % 4] for i, b in enumerate(data))


def enc_frame(opcode, payload=b"", fin=True, rsv=0, mask=None, length_form=None):
    """one frame; rsv is the 3-bit RSV1..3 field (RSV1 = 4); mask: 4 bytes or None; length_form forces a (non-minimal) 7 / 16 / 64-bit length"""
    b0 = (0x80 if fin else 0) | (rsv << 4) | opcode
    n = len(payload)
    form = length_form or (7 if n < 126 else 16 if n < 65536 else 64)
    mbit = 0x80 if mask is not None else 0
    if form == 7:
        head = bytes([b0, mbit | n])
    elif form == 16:
        head = bytes([b0, mbit | 126]) + struct.pack("!H", n)
    else:
        head = bytes([b0, mbit | 127]) + struct.pack("!Q", n)
    if mask is not None:
        return head + mask + ref_mask(mask, payload)
    return head + payload


def dec_frames(data):
    """-> list of dicts(fin, rsv, opcode, masked, payload), rest.  Raises ValueError on a malformed length encoding."""
    out, i = [], 0
    while True:
        if len(data) - i < 2:
            break
        b0, b1 = data[i], data[i + 1]
        n = b1 & 0x7F
        j = i + 2
        if n == 126:
            if len(data) - j < 2:
                break
            n = struct.unpack("!H", data[j:j + 2])[0]
            j += 2
        elif n == 127:
            if len(data) - j < 8:
                break
            n = struct.unpack("!Q", data[j:j + 8])[0]
            j += 8
        mask = None
        if b1 & 0x80:
            if len(data) - j < 4:
                break
            mask = data[j:j + 4]
            j += 4
        if len(data) - j < n:
            break
        payload = bytes(data[j:j + n])
        if mask is not None:
            payload = ref_mask(mask, payload)
        out.append({"fin": bool(b0 & 0x80), "rsv": (b0 >> 4) & 7, "opcode": b0 & 0x0F, "masked": mask is not None, "payload": payload})
        i = j + n
    return out, bytes(data[i:])


class RefDeflate:
    """permessage-deflate as RFC 7692 section 7.2 describes it: raw DEFLATE, sync flush, the 00 00 ff ff tail removed; context kept or reset per message"""
    def __init__(self, wbits=15, takeover=True, level=6):
        self.wbits, self.takeover, self.level = wbits, takeover, level
        self.c = self.d = None

    def compress(self, data):
        if self.c is None or not self.takeover:
            self.c = zlib.compressobj(self.level, zlib.DEFLATED, -self.wbits)
        out = self.c.compress(data) + self.c.flush(zlib.Z_SYNC_FLUSH)
        assert out.endswith(b"\x00\x00\xff\xff")
        return out[:-4]

    def decompress(self, data):
        if self.d is None or not self.takeover:
            self.d = zlib.decompressobj(-self.wbits)
        return self.d.decompress(data + b"\x00\x00\xff\xff")


# ------------------------------------------------------------------ the real protocol object on a fake stream
class Delegate:
    """_WebSocketDelegate: records everything the protocol reports"""
    def __init__(self, on_message=None):
        self.messages, self.pings, self.pongs, self.closes, self.exceptions = [], [], [], [], []
        self.events = []
        self._on_message = on_message
        self.close_code = self.close_reason = None

    def on_ws_connection_close(self, close_code=None, close_reason=None):
        self.closes.append((close_code, close_reason))
        self.events.append(("closed", close_code, close_reason))

    def on_message(self, message):
        self.messages.append(message)
        self.events.append(("message", message))
        if self._on_message is not None:
            return self._on_message(message)
        return None

    def on_ping(self, data):
        self.pings.append(data)
        self.events.append(("ping", data))

    def on_pong(self, data):
        self.pongs.append(data)
        self.events.append(("pong", data))

    def log_exception(self, typ, value, tb):
        self.exceptions.append(value)


def make_protocol(role="server", compression=None, max_message_size=10 * 1024 * 1024, ping_interval=None, ping_timeout=None, on_message=None, agreed=None):
    """role 'server': unmasked output, expects the client's frames; 'client': masked output.
    compression: None | dict of compression_options; agreed: the negotiated extension parameters (dict as parsed from the header)"""
    import tornado.websocket as W
    delegate = Delegate(on_message)
    params = W._WebSocketParams(ping_interval=ping_interval, ping_timeout=ping_timeout, max_message_size=max_message_size, compression_options=compression)
    proto = W.WebSocketProtocol13(delegate, mask_outgoing=(role == "client"), params=params)
    proto.stream = FakeTransportStream()
    proto._selected_subprotocol = None
    if compression is not None:
        proto._create_compressors(role, agreed or {}, compression)
    return proto, delegate


async def ticks(n=4):
    for _ in range(n):
        await asyncio.sleep(0)


async def feed(proto, data, cuts=None):
    """hand bytes to the protocol's stream in the given segmentation (list of cut offsets), letting the reader run between segments"""
    s = proto.stream
    pieces, last = [], 0
    for c in sorted(set(cuts or [])):
        if 0 < c < len(data):
            pieces.append(data[last:c])
            last = c
    pieces.append(data[last:])
    for p in pieces:
        if s.closed():
            return
        if p:
            s.feed(p)
            s.pump()
        await ticks(3)


async def peer_eof(proto):
    s = proto.stream
    if not s.closed():
        s.feed(EOF)
        s.pump()
    await ticks(4)


def run(coro_fn):
    """run `await coro_fn()` on a fresh event loop with a current IOLoop"""
    import tornado.platform.asyncio as A
    loop = A.AsyncIOLoop(make_current=False)
    aio = loop.asyncio_loop
    asyncio.set_event_loop(aio)
    try:
        async def main():
            loop._make_current() if hasattr(loop, "_make_current") else None
            return await coro_fn()
        return aio.run_until_complete(main())
    finally:
        try:
            pending = [t for t in asyncio.all_tasks(aio) if not t.done()]
            for t in pending:
                t.cancel()
            if pending:
                aio.run_until_complete(asyncio.gather(*pending, return_exceptions=True))
        except Exception:
            pass
        loop.close(all_fds=True)
        asyncio.set_event_loop(None)


class _Stalled:
    """a script for FakeTransportStream.accepts that answers 'would block' for ever"""
    def __bool__(self):
        return True

    def pop(self, i=0):
        from .fakestream import WOULD_BLOCK
        return WOULD_BLOCK


def random_mask(rng):
    return bytes(rng.randrange(256) for _ in range(4))


# ------------------------------------------------------------------ a whole server-side session: real Application + WebSocketHandler over the fake transport
HANDSHAKE = (b"GET /ws HTTP/1.1\r\nHost: example.com\r\nUpgrade: websocket\r\nConnection: Upgrade\r\nSec-WebSocket-Key: dGhlIHNhbXBsZSBub25jZQ==\r\n"
             b"Sec-WebSocket-Version: 13\r\n%s\r\n")


class _Failing(list):
    """transport script: every attempt to send fails with the given OSError"""
    def __init__(self, exc):
        list.__init__(self, [exc])
        self.exc = exc

    def pop(self, i=0):
        return self.exc

    def __bool__(self):
        return True


def session(steps, settings=None, extra_request_headers=b"", handler_attrs=None, on_message=None, request=None):
    """steps: list of
        ("peer", bytes)                 bytes from the peer (frames)
        ("eof",)                        the peer disconnects
        ("close", code, reason)         the application calls handler.close(code, reason)
        ("write", message)              the application calls handler.write_message
        ("ping", data)                  the application calls handler.ping
        ("stall",)                      the peer stops reading: writes stay in the buffer from now on
        ("reset",)                      the peer is gone (TCP reset) but the loop has not noticed: the next send fails with ECONNRESET
        ("advance", seconds)            virtual time passes (in steps of <= 0.25 s so that timers fire in order)
    Returns dict(events=[...handler events and write outcomes in order...], frames=[decoded frames the server sent after the handshake], closed_at=step index or None,
                 status=handshake status line, logs=[error records])"""
    import tornado.web as W
    import tornado.websocket as WS
    from . import httpserver as S
    events = []
    box = {}

    class Handler(WS.WebSocketHandler):
        def open(self):
            box["h"] = self
            box["proto"] = self.ws_connection
            events.append(("open",))

        def on_message(self, message):
            events.append(("message", message))
            if on_message is not None:
                return on_message(self, message)

        def on_close(self):
            events.append(("on_close", self.close_code, self.close_reason))

        def on_ping(self, data):
            events.append(("on_ping", data))

        def on_pong(self, data):
            events.append(("on_pong", data))

        def check_origin(self, origin):
            return True
    for k, v in (handler_attrs or {}).items():
        setattr(Handler, k, v)
    marks = {}
    pending_writes = []

    async def after(v, stream, server, res):
        head_len = len(bytes(stream.sent))
        marks["head"] = bytes(stream.sent)
        for i, st in enumerate(steps):
            kind = st[0]
            h = box.get("h")
            try:
                if kind == "peer":
                    if not stream.closed():
                        stream.feed(st[1])
                        stream.pump()
                elif kind == "stall":
                    # the peer stops reading: from now on the transport accepts nothing (the socket's send buffer is full)
                    stream.accepts = _Stalled()
                elif kind == "eof":
                    if not stream.closed():
                        stream.feed(EOF)
                        stream.pump()
                elif kind == "close":
                    h.close(*st[1:])
                    events.append(("closed-locally",) + tuple(st[1:]))
                elif kind == "reset":
                    # the peer vanishes with a TCP reset that the event loop has not noticed yet: the next attempt to send fails with ECONNRESET
                    stream.accepts = _Failing(ConnectionResetError(104, "Connection reset by peer"))
                elif kind == "write":
                    try:
                        fut = h.write_message(st[1], binary=isinstance(st[1], bytes))
                        events.append(("write-accepted", st[1]))
                        pending_writes.append((i, fut))
                    except WS.WebSocketClosedError:
                        events.append(("write-refused", "WebSocketClosedError"))
                elif kind == "ping":
                    try:
                        h.ping(st[1])
                        events.append(("ping-accepted", st[1]))
                    except WS.WebSocketClosedError:
                        events.append(("ping-refused", "WebSocketClosedError"))
                elif kind == "advance":
                    left = st[1]
                    while left > 1e-9:
                        d = min(0.25, left)
                        v.advance(d)
                        left -= d
                        await v.tick(10)            # everything that falls due at this instant (timer -> coroutine -> sleep(0) -> next action) settles before the clock moves on
                        stream.pump()
                        await v.tick(2)
            except Exception as e:     # noqa: B902
                events.append(("step-raised", kind, type(e).__name__, str(e)[:80]))
            await v.tick(4)
            stream.pump()
            await v.tick(2)
            for (wi, fut) in list(pending_writes):
                if fut.done():
                    pending_writes.remove((wi, fut))
                    exc = None if fut.cancelled() else fut.exception()
                    events.append(("write-outcome", wi, "sent" if exc is None else type(exc).__name__))
            events.append(("after-step", i, "closed" if stream.closed() else "open", len(bytes(stream.sent)) - head_len))
        marks["tail"] = bytes(stream.sent)[head_len:]
    res = S.run_server([request if request is not None else HANDSHAKE % extra_request_headers], make_app=lambda r: W.Application([(r"/ws", Handler)], **(settings or {})), eof=True, after=after)
    frames, rest = dec_frames(marks.get("tail", b""))
    head = marks.get("head", b"")
    proto = getattr(box.get("h"), "_c17_protocol", None)
    return {"events": events, "frames": frames, "rest": rest, "status": head.split(b"\r\n", 1)[0], "head": head, "handler": box.get("h"), "protocol": box.get("proto"), "logs": [r for r in res.logs if r[1] in ("ERROR", "CRITICAL")], "final_closed": res.closed}
